---------------------------- MODULE MCSpherical ----------------------------
(***************************************************************************)
(* Exhaustive model for C10: every l in 0..LMax and every pair (m, m2).     *)
(* One initial state per triple; the single action evaluates the            *)
(* properties (in the worker threads) and records the verdicts; for m = m2  *)
(* it also writes the row of the transformation matrix (squares in F_P and  *)
(* exact signs) for the harness to compare with its own exact matrix and    *)
(* with gbasis.                                                             *)
(***************************************************************************)
EXTENDS Spherical, TLC, Json, IOUtils

CONSTANT LMax

VARIABLES l, m, m2, done, verdict
vars == <<l, m, m2, done, verdict>>

OutDir == IOEnv.GBV_OUT

Init == /\ l \in 0..LMax
        /\ m \in (-LMax)..LMax /\ m2 \in (-LMax)..LMax
        /\ Abs(m) <= l /\ Abs(m2) <= l /\ m <= m2
        /\ done = FALSE
        /\ verdict = <<>>

Row(ll, mm) ==
  [m |-> mm,
   entries |-> [c \in 1..NCart(ll) |->
       LET a == CartComps(ll)[c]
       IN  <<ImplSign(ll, mm, a), TSquare(ll, mm, a)>>]]

Check ==
  /\ ~done
  /\ done' = TRUE
  /\ UNCHANGED <<l, m, m2>>
  /\ LET h == Impl(l, m)
         g == Impl(l, m2)
     IN  verdict' =
           IF m = m2
           THEN [harmonic     |-> Harmonic(h, l),
                 proportional |-> Proportional(h, Def(l, m), l),
                 defharmonic  |-> Harmonic(Def(l, m), l),
                 pole         |-> PolePhase(l, m),
                 \* N^2 <h|h> = (2l-1)!!  <=>  the pure function is unit-normalised
                 normalised   |-> Mul(HarmNorm2(l, m), Inner(h, h, l)) = DFm1(2 * l),
                 orthogonal   |-> TRUE,
                 written      |-> JsonSerialize(OutDir \o "/sph_" \o ToString(l) \o "_" \o ToString(m + l) \o ".json",
                                                [l |-> l, prime |-> P, row |-> Row(l, m)])]
           ELSE [harmonic |-> TRUE, proportional |-> TRUE, defharmonic |-> TRUE, pole |-> TRUE,
                 normalised |-> TRUE, written |-> TRUE,
                 orthogonal |-> Inner(h, g, l) = 0]

Next == Check
Spec == Init /\ [][Next]_vars

Harmonic_     == done => verdict.harmonic
ImplIsDef     == done => verdict.proportional
DefHarmonic   == done => verdict.defharmonic
PolePositive  == done => verdict.pole
UnitNorm      == done => verdict.normalised
Orthogonal    == done => verdict.orthogonal

\* the documented default orders have the right length and contain every label once
OrdersOK == /\ Len(SphLabels(l)) = 2 * l + 1
            /\ Cardinality({SphLabels(l)[n] : n \in 1..(2 * l + 1)}) = 2 * l + 1
            /\ Len(CartComps(l)) = NCart(l)
            /\ {CartComps(l)[n] : n \in 1..NCart(l)} = Monos(l)
=============================================================================
