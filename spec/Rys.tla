--------------------------------- MODULE Rys ---------------------------------
(***************************************************************************)
(* L1 -- DEFINITIONS of the Coulomb integrals through the Gaussian          *)
(* transform of 1/r (not through any recursion):                            *)
(*    1/r = (2/sqrt(pi)) Int_0^inf exp(-u^2 r^2) du .                       *)
(* Inserting it, the integral over the electron coordinates becomes a       *)
(* Gaussian moment for every u; with t^2 = u^2/(rho + u^2) = s the          *)
(* integrand is, per axis, a POLYNOMIAL in s ("Rys polynomial"), and        *)
(*                                                                          *)
(*  one electron, charge at C:   (a| 1/r_C |b) =                            *)
(*      (2 pi / p) K_AB  sum_m [s^m](I_x I_y I_z) F_m(p |PC|^2)             *)
(*  two electrons:               (ab|cd) =                                  *)
(*      2 pi^(5/2) / (p q sqrt(p+q)) K_AB K_CD                              *)
(*                       sum_m [s^m](I_x I_y I_z) F_m(rho |PQ|^2)           *)
(*                                                                          *)
(* with F_m(T) = Int_0^1 t^(2m) exp(-T t^2) dt the Boys function,           *)
(* p = a+b, q = c+d, rho = pq/(p+q).  Everything below is the rational      *)
(* part: polynomials in s over F_P, as sequences <<c0, c1, ...>>.           *)
(*                                                                          *)
(* One electron.  For fixed s the product of the two Gaussians and          *)
(* exp(-u^2 (x-C)^2) is a Gaussian of exponent p/(1-s) centred at           *)
(* P + s (C - P):  I_ij(s) = < (tau + PA - s PC)^i (tau + PB - s PC)^j >,   *)
(* <tau^n> = (n-1)!! ((1-s)/(2p))^(n/2).                                    *)
(*                                                                          *)
(* Two electrons.  For fixed s, (x1, x2) is bivariate normal with           *)
(*   means   P + s (W - P),  Q + s (W - Q),      W = (pP + qQ)/(p+q)        *)
(*   Var x1 = ((1-s)/p + s/(p+q))/2, Var x2 = ((1-s)/q + s/(p+q))/2,        *)
(*   Cov    = s / (2 (p+q)),                                                *)
(* and I_ijkl(s) = < (x1-A)^i (x1-B)^j (x2-C)^k (x2-D)^l >, evaluated with  *)
(* Isserlis' formula for < y1^n y2^m >.                                     *)
(***************************************************************************)
EXTENDS Gauss

PSumSeq(ps) == FoldLeft(PAdd, <<0>>, ps)

\* polynomials in tau whose coefficients are polynomials in s: sequences of s-polynomials
BMul(f, g) ==
  Memo([n \in 1..(Len(f) + Len(g) - 1) |->
     LET lo == Max2(1, n + 1 - Len(g))
         hi == Min2(n, Len(f))
     IN  PSumSeq([t \in 1..(hi - lo + 1) |-> PMul(f[lo + t - 1], g[n - lo - t + 2])])])

\* table of powers c^0 .. c^n of an s-polynomial c
PPowers(c, n) ==
  FoldLeft(LAMBDA acc, k : Append(acc, PMul(acc[Len(acc)], c)), << <<1>> >>, [k \in 1..n |-> k])

\* (tau + c(s))^n
BPowLin(c, n) ==
  LET pw == PPowers(c, n)
  IN  Memo([k \in 1..(n + 1) |-> PScale(Binom(n, k - 1), pw[n - k + 2])])

(***************************************************************************)
(* One electron.  q is an axis record (Gauss!Derive) whose field C is the   *)
(* position of the charge.                                                  *)
(***************************************************************************)
Rys1DTable(q, la, lb) ==
  LET QA  == <<q.pa, Neg(q.pc)>>
      QB  == <<q.pb, Neg(q.pc)>>
      fa  == Memo([i \in 1..(la + 1) |-> BPowLin(QA, i - 1)])
      fb  == Memo([j \in 1..(lb + 1) |-> BPowLin(QB, j - 1)])
      oms == PPowers(<<1, P - 1>>, (la + lb) \div 2)                 \* (1 - s)^h
      w   == Memo([n \in 1..(la + lb + 1) |->                           \* <tau^(n-1)>
                IF (n - 1) % 2 = 1 THEN <<0>>
                ELSE PScale(Mul(DFm1(n - 1), PowM(q.i2p, (n - 1) \div 2)), oms[(n - 1) \div 2 + 1])])
  IN  Memo([j \in 1..(lb + 1) |-> [i \in 1..(la + 1) |->
         LET f == BMul(fa[i], fb[j])
         IN  PTrim(PSumSeq([n \in 1..Len(f) |-> PMul(f[n], w[n])]))]])

Rys1D(q, i, j) == Rys1DTable(q, i, j)[j + 1][i + 1]

(***************************************************************************)
(* Two electrons.  r is an axis record of a primitive quartet:              *)
(*   [a, b, c, d, A, B, C, D] in F_P.                                       *)
(***************************************************************************)
Derive2(r) ==
  LET p   == Add(r.a, r.b)
      q   == Add(r.c, r.d)
      ip  == Inv(p)
      iq  == Inv(q)
      ipq == Inv(Add(p, q))
      Pc  == Mul(Add(Mul(r.a, r.A), Mul(r.b, r.B)), ip)
      Qc  == Mul(Add(Mul(r.c, r.C), Mul(r.d, r.D)), iq)
      Wc  == Mul(Add(Mul(p, Pc), Mul(q, Qc)), ipq)
      h   == Inv(2)
  IN  Memo([p |-> p, q |-> q, ipq |-> ipq,
            pa |-> Sub(Pc, r.A), pb |-> Sub(Pc, r.B), qc |-> Sub(Qc, r.C), qd |-> Sub(Qc, r.D),
            wp |-> Sub(Wc, Pc), wq |-> Sub(Wc, Qc), pq |-> Sub(Pc, Qc),
            ab |-> Sub(r.A, r.B), cd |-> Sub(r.C, r.D),
            v1 |-> <<Mul(ip, h), Mul(Sub(ipq, ip), h)>>,       \* Var x1 as a polynomial in s
            v2 |-> <<Mul(iq, h), Mul(Sub(ipq, iq), h)>>,
            cv |-> <<0, Mul(ipq, h)>>])

\* Isserlis: < y1^n y2^m > for a centred bivariate normal
IssCoef(n, m, c) ==
  LET h1 == (n - c) \div 2
      h2 == (m - c) \div 2
  IN  Div(Mul(Fact(n), Fact(m)), Mul(Mul(Fact(c), Mul(Fact(h1), Fact(h2))), PowM(2, h1 + h2)))

Iss(d, nmax, mmax) ==
  LET pv1 == PPowers(d.v1, nmax \div 2)
      pv2 == PPowers(d.v2, mmax \div 2)
      pcv == PPowers(d.cv, Min2(nmax, mmax))
  IN  Memo([n \in 1..(nmax + 1) |-> [m \in 1..(mmax + 1) |->
         PSumSeq([c \in 1..(Min2(n, m)) |->
            IF (n - c) % 2 = 0 /\ (m - c) % 2 = 0
            THEN PScale(IssCoef(n - 1, m - 1, c - 1),
                        PMul(PMul(pv1[(n - c) \div 2 + 1], pv2[(m - c) \div 2 + 1]), pcv[c]))
            ELSE <<0>>])]])

Rys2DTable(d, la, lb, lc, ld) ==
  LET XA == <<d.pa, d.wp>>
      XB == <<d.pb, d.wp>>
      XC == <<d.qc, d.wq>>
      XD == <<d.qd, d.wq>>
      fa == Memo([i \in 1..(la + 1) |-> BPowLin(XA, i - 1)])
      fb == Memo([j \in 1..(lb + 1) |-> BPowLin(XB, j - 1)])
      fc == Memo([k \in 1..(lc + 1) |-> BPowLin(XC, k - 1)])
      fd == Memo([l \in 1..(ld + 1) |-> BPowLin(XD, l - 1)])
      fab == Memo([i \in 1..(la + 1) |-> [j \in 1..(lb + 1) |-> BMul(fa[i], fb[j])]])
      fcd == Memo([k \in 1..(lc + 1) |-> [l \in 1..(ld + 1) |-> BMul(fc[k], fd[l])]])
      E  == Iss(d, la + lb, lc + ld)
  IN  Memo([i \in 1..(la + 1) |-> [j \in 1..(lb + 1) |-> [k \in 1..(lc + 1) |-> [l \in 1..(ld + 1) |->
         LET f == fab[i][j]
             g == fcd[k][l]
         IN  PTrim(PSumSeq([n \in 1..Len(f) |->
                PSumSeq([m \in 1..Len(g) |-> PMul(PMul(f[n], g[m]), E[n][m])])]))]]]])

(***************************************************************************)
(* Consistency of the two definitions (checked by TLC on the grid): a       *)
(* second electron pair that is an infinitely tight s function at C turns   *)
(* the two-electron polynomial into the one-electron one.  For finite q     *)
(* the exact statement is  I_ij00 with (c + d) = q  ==  one-electron        *)
(* polynomial of a charge "smeared" with exponent q; at s -> s the          *)
(* relation Rys2D(p, q)(s) = Rys1D(p)(s * q/(p+q)) holds coefficientwise.   *)
(***************************************************************************)
RECURSIVE PCompScale(_, _)
\* p(s * lambda)
PCompScale(p, lam) == [n \in 1..Len(p) |-> Mul(p[n], PowM(lam, n - 1))]

TwoToOne(r, la, lb) ==
  \* r: two-electron axis record with c = d, C = D (an s pair at C); q1: the one-electron record
  LET d  == Derive2(r)
      q1 == Derive([a |-> r.a, b |-> r.b, A |-> r.A, B |-> r.B, C |-> r.C])
      lam == Mul(d.q, d.ipq)
      t2 == Rys2DTable(d, la, lb, 0, 0)
      t1 == Rys1DTable(q1, la, lb)
  IN  \A i \in 0..la, j \in 0..lb :
        PEq(t2[i + 1][j + 1][1][1], PCompScale(t1[j + 1][i + 1], lam))
=============================================================================
