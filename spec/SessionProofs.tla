--------------------------- MODULE SessionProofs ---------------------------
(***************************************************************************)
(* Unbounded statements about Session.tla, proved with TLAPS for ANY sets   *)
(* of shells, arrays, lists and functions and any MaxVersions (TLC checks   *)
(* the same properties exhaustively for 3 shells x 3 versions only):        *)
(*   PurityHolds       a public call changes no object and not the error    *)
(*                     state (on the repaired tree: PopVariant = FALSE)      *)
(*   MemoStableHolds   an answer once given is never revised                 *)
(*   ErrStateHolds     the floating-point error state is the initial one    *)
(***************************************************************************)
EXTENDS Session, TLAPS

ASSUME Repaired == PopVariant = FALSE

LEMMA RememberKeeps ==
  ASSUME NEW k, NEW r, Remember(k, r)
  PROVE  \A j \in DOMAIN memo : j \in DOMAIN memo' /\ memo'[j] = memo[j]
  BY DEF Remember

THEOREM PurityHolds == Spec => Purity
<1>1. ASSUME [Next]_vars, IsCallStep PROVE val' = val /\ npErr' = npErr
  <2>1. CASE UNCHANGED vars
    BY <2>1 DEF vars
  <2>2. CASE \E f \in Funcs : \E r \in 1..2 : Call(f, IF KeyOf(f) \in DOMAIN memo THEN memo[KeyOf(f)] ELSE r)
    BY <2>2 DEF Call
  <2>3. CASE \E s \in Shells : \E p2 \in 1..MaxVersions : Mutate(s, p2)
    BY <2>3, <1>1 DEF Mutate, IsCallStep
  <2>4. CASE \E s \in Shells : AssignNorm(s, val[s][1])
    BY <2>4, <1>1 DEF AssignNorm, IsCallStep
  <2>5. CASE \E a \in Arrays : \E v \in 1..MaxVersions : Overwrite(a, v)
    BY <2>5, <1>1 DEF Overwrite, IsCallStep
  <2>6. CASE \E l \in Lists : MakeContractionsPop(l)
    BY <2>6, Repaired DEF MakeContractionsPop
  <2>8. CASE \E s \in Shells : \E p2 \in 1..MaxVersions : MutateInPlace(s, p2)
    BY <2>8, <1>1 DEF MutateInPlace, IsCallStep
  <2>9. CASE \E s \in Shells : Rebuild(s, val[s][1])
    BY <2>9, <1>1 DEF Rebuild, IsCallStep
  <2>7. QED
    BY <1>1, <2>1, <2>2, <2>3, <2>4, <2>5, <2>6, <2>8, <2>9 DEF Next
<1>2. QED
  BY <1>1, PTL DEF Spec, Purity

THEOREM MemoStableHolds == Spec => MemoStable
<1>1. ASSUME [Next]_vars PROVE \A k \in DOMAIN memo : k \in DOMAIN memo' /\ memo'[k] = memo[k]
  <2>1. CASE UNCHANGED vars
    BY <2>1 DEF vars
  <2>2. CASE \E f \in Funcs : \E r \in 1..2 : Call(f, IF KeyOf(f) \in DOMAIN memo THEN memo[KeyOf(f)] ELSE r)
    BY <2>2, RememberKeeps DEF Call
  <2>3. CASE \E s \in Shells : \E p2 \in 1..MaxVersions : Mutate(s, p2)
    BY <2>3 DEF Mutate
  <2>4. CASE \E s \in Shells : AssignNorm(s, val[s][1])
    BY <2>4, RememberKeeps DEF AssignNorm
  <2>5. CASE \E a \in Arrays : \E v \in 1..MaxVersions : Overwrite(a, v)
    BY <2>5 DEF Overwrite
  <2>6. CASE \E l \in Lists : MakeContractionsPop(l)
    BY <2>6 DEF MakeContractionsPop
  <2>8. CASE \E s \in Shells : \E p2 \in 1..MaxVersions : MutateInPlace(s, p2)
    BY <2>8 DEF MutateInPlace
  <2>9. CASE \E s \in Shells : Rebuild(s, val[s][1])
    BY <2>9, RememberKeeps DEF Rebuild
  <2>7. QED
    BY <1>1, <2>1, <2>2, <2>3, <2>4, <2>5, <2>6, <2>8, <2>9 DEF Next
<1>2. QED
  BY <1>1, PTL DEF Spec, MemoStable

THEOREM ErrStateHolds == Spec => []ErrStateKept
<1>1. Init => ErrStateKept
  BY DEF Init, ErrStateKept
<1>2. ASSUME ErrStateKept, [Next]_vars PROVE ErrStateKept'
  BY <1>2 DEF ErrStateKept, Next, vars, Call, Mutate, MutateInPlace, AssignNorm, Rebuild, Overwrite, MakeContractionsPop
<1>3. QED
  BY <1>1, <1>2, PTL DEF Spec

(***************************************************************************)
(* After assign_norm_cont() the cached normalisation is the one remembered  *)
(* for the shell's current parameters.                                      *)
(***************************************************************************)
ValIsFcn == \E S : val \in [Objects -> S]

LEMMA ValFcnInv == Spec => []ValIsFcn
<1>1. Init => ValIsFcn
  <2> SUFFICES ASSUME Init PROVE ValIsFcn
    OBVIOUS
  <2>1. val \in [Objects -> {<<1, 1>>, 1}]
    BY DEF Init
  <2>2. QED
    BY <2>1 DEF ValIsFcn
<1>2. ASSUME ValIsFcn, [Next]_vars PROVE ValIsFcn'
  <2>1. PICK S : val \in [Objects -> S]
    BY <1>2 DEF ValIsFcn
  <2>2. CASE UNCHANGED vars
    BY <2>1, <2>2 DEF vars, ValIsFcn
  <2>3. CASE \E f \in Funcs : \E r \in 1..2 : Call(f, IF KeyOf(f) \in DOMAIN memo THEN memo[KeyOf(f)] ELSE r)
    BY <2>1, <2>3 DEF Call, ValIsFcn
  <2>4. CASE \E s \in Shells : \E p2 \in 1..MaxVersions : Mutate(s, p2)
    <3>1. PICK s \in Shells, p2 \in 1..MaxVersions : Mutate(s, p2)
      BY <2>4
    <3>2. val' \in [Objects -> S \cup {<<p2, val[s][2]>>}]
      BY <2>1, <3>1 DEF Mutate
    <3>3. QED
      BY <3>2 DEF ValIsFcn
  <2>5. CASE \E s \in Shells : AssignNorm(s, val[s][1])
    <3>1. PICK s \in Shells : AssignNorm(s, val[s][1])
      BY <2>5
    <3>2. val' \in [Objects -> S \cup {<<val[s][1], val[s][1]>>}]
      BY <2>1, <3>1 DEF AssignNorm
    <3>3. QED
      BY <3>2 DEF ValIsFcn
  <2>6. CASE \E a \in Arrays : \E v \in 1..MaxVersions : Overwrite(a, v)
    <3>1. PICK a \in Arrays, v \in 1..MaxVersions : Overwrite(a, v)
      BY <2>6
    <3>2. val' \in [Objects -> S \cup {v}]
      BY <2>1, <3>1 DEF Overwrite
    <3>3. QED
      BY <3>2 DEF ValIsFcn
  <2>7. CASE \E l \in Lists : MakeContractionsPop(l)
    BY <2>7, Repaired DEF MakeContractionsPop
  <2>9. CASE \E s \in Shells : \E p2 \in 1..MaxVersions : MutateInPlace(s, p2)
    <3>1. PICK s \in Shells, p2 \in 1..MaxVersions : MutateInPlace(s, p2)
      BY <2>9
    <3>2. val' \in [Objects -> S \cup {<<p2, val[s][2]>>}]
      BY <2>1, <3>1 DEF MutateInPlace
    <3>3. QED
      BY <3>2 DEF ValIsFcn
  <2>10. CASE \E s \in Shells : Rebuild(s, val[s][1])
    <3>1. PICK s \in Shells : Rebuild(s, val[s][1])
      BY <2>10
    <3>2. val' \in [Objects -> S \cup {<<val[s][1], val[s][1]>>}]
      BY <2>1, <3>1 DEF Rebuild
    <3>3. QED
      BY <3>2 DEF ValIsFcn
  <2>8. QED
    BY <1>2, <2>2, <2>3, <2>4, <2>5, <2>6, <2>7, <2>9, <2>10 DEF Next
<1>3. QED
  BY <1>1, <1>2, PTL DEF Spec

THEOREM AfterAssignHolds == Spec => []AfterAssign
<1>1. Init => AfterAssign
  BY DEF Init, AfterAssign
<1>2. ASSUME ValIsFcn, AfterAssign, [Next]_vars PROVE AfterAssign'
  <2>2. CASE UNCHANGED vars
    BY <1>2, <2>2 DEF vars, AfterAssign
  <2>3. CASE \E f \in Funcs : \E r \in 1..2 : Call(f, IF KeyOf(f) \in DOMAIN memo THEN memo[KeyOf(f)] ELSE r)
    BY <2>3 DEF Call, AfterAssign
  <2>4. CASE \E s \in Shells : \E p2 \in 1..MaxVersions : Mutate(s, p2)
    BY <2>4 DEF Mutate, AfterAssign
  <2>5. CASE \E s \in Shells : AssignNorm(s, val[s][1])
    <3>1. PICK s \in Shells : AssignNorm(s, val[s][1])
      BY <2>5
    <3>2. s \in DOMAIN val
      BY <1>2 DEF ValIsFcn, Objects
    <3>3. val'[s] = <<val[s][1], val[s][1]>>
      BY <3>1, <3>2 DEF AssignNorm
    <3>4. memo'[<<"assign_norm", s, val[s][1]>>] = val[s][1]
      BY <3>1 DEF AssignNorm, Remember
    <3>5. last' = <<"assign_norm", s>>
      BY <3>1 DEF AssignNorm
    <3>6. QED
      BY <3>3, <3>4, <3>5 DEF AfterAssign
  <2>6. CASE \E a \in Arrays : \E v \in 1..MaxVersions : Overwrite(a, v)
    BY <2>6 DEF Overwrite, AfterAssign
  <2>7. CASE \E l \in Lists : MakeContractionsPop(l)
    BY <2>7, Repaired DEF MakeContractionsPop
  <2>9. CASE \E s \in Shells : \E p2 \in 1..MaxVersions : MutateInPlace(s, p2)
    BY <2>9 DEF MutateInPlace, AfterAssign
  <2>10. CASE \E s \in Shells : Rebuild(s, val[s][1])
    <3>1. PICK s \in Shells : Rebuild(s, val[s][1])
      BY <2>10
    <3>2. s \in DOMAIN val
      BY <1>2 DEF ValIsFcn, Objects
    <3>3. val'[s] = <<val[s][1], val[s][1]>>
      BY <3>1, <3>2 DEF Rebuild
    <3>4. memo'[<<"assign_norm", s, val[s][1]>>] = val[s][1]
      BY <3>1 DEF Rebuild, Remember
    <3>5. last' = <<"rebuild", s>>
      BY <3>1 DEF Rebuild
    <3>6. QED
      BY <3>3, <3>4, <3>5 DEF AfterAssign
  <2>8. QED
    BY <1>2, <2>2, <2>3, <2>4, <2>5, <2>6, <2>7, <2>9, <2>10 DEF Next
<1>3. QED
  BY <1>1, <1>2, ValFcnInv, PTL DEF Spec
=============================================================================
