------------------------------- MODULE DiffOp -------------------------------
(***************************************************************************)
(* L2 -- gbasis/integrals/_diff_operator_int.py, lines 77-125               *)
(* (_compute_differential_operator_integrals_intermediate) AS IMPLEMENTED,  *)
(* for one axis of one primitive pair.                                      *)
(*                                                                          *)
(* The code differentiates the LEFT function: on an overlap table padded    *)
(* by the maximal order it applies                                          *)
(*      D^{k+1}[j, i] = 2 a D^k[j, i+1] - i D^k[j, i-1]                     *)
(* (which is minus d/dx of (x-A)^i exp(-a(x-A)^2)) and crops the padding at *)
(* the end.  The DEFINITION (Gauss!Diff1D) differentiates the RIGHT         *)
(* function; that the two agree is integration by parts, and is what TLC    *)
(* checks here for every entry that survives the crop.  Entries in the      *)
(* padding of row k beyond column LA + DM - k are computed from a slot that *)
(* was never written (numpy zeros): the machine reproduces that, and the    *)
(* invariant says exactly which entries are meaningful.                     *)
(***************************************************************************)
EXTENDS Gauss, TLC

CONSTANTS Grid, Shapes          \* Shapes: set of <<LA, LB, DM>>

VARIABLES q, shape, tab, pc, fresh
vars == <<q, shape, tab, pc, fresh>>

LA == shape[1]
LB == shape[2]
DM == shape[3]
W  == LA + DM                   \* last column of the padded table

T(k, j, i) == tab[<<k, j, i>>]

Write(S, val(_)) ==
  /\ tab' = [x \in DOMAIN tab |-> IF x \in S THEN val(x) ELSE tab[x]]
  /\ fresh' = S

Init ==
  /\ q \in Grid
  /\ shape \in Shapes
  /\ tab = [x \in {<<k, j, i>> : k \in 0..shape[3], j \in 0..shape[2], i \in 0..(shape[1] + shape[3])} |-> 0]
  /\ pc = <<"overlap", 0>>
  /\ fresh = {}

\* lines 97-106: row 0 is the overlap table for angmom_a_max + order_diff_max.
\* (That routine is the machine of OSMoment.tla, whose result is Gauss!Moment1D.)
OverlapRow ==
  /\ pc = <<"overlap", 0>>
  /\ Write({x \in DOMAIN tab : x[1] = 0}, LAMBDA x : Overlap1D(q, x[3], x[2]))
  /\ pc' = <<"d", 0>>

\* lines 111-115 (k = 0) and 116-123 (k >= 1): one more order of differentiation
DRow(k, x) ==
  IF x[3] = 0 THEN Mul(Mul(2, q.a), T(k, x[2], 1))
  ELSE Sub(Mul(Mul(2, q.a), T(k, x[2], x[3] + 1)), Mul(FromInt(x[3]), T(k, x[2], x[3] - 1)))

DLoop ==
  /\ pc[1] = "d"
  /\ LET k == pc[2] IN
     IF k < DM
     THEN /\ Write({x \in DOMAIN tab : x[1] = k + 1 /\ x[3] <= W - 1}, LAMBDA x : DRow(k, x))
          /\ pc' = <<"d", k + 1>>
     ELSE /\ UNCHANGED tab /\ fresh' = {} /\ pc' = <<"done", 0>>

Next == (OverlapRow \/ DLoop) /\ UNCHANGED <<q, shape>>
Spec == Init /\ [][Next]_vars

TableFormIsDef == pc = <<"d", 0>> => DiffTableIsDef(q, LA, LB, DM)

Meaningful(x) == x[3] <= W - x[1]

FreshEqDef == \A x \in fresh : Meaningful(x) => tab[x] = Diff1D(q, x[3], x[2], x[1])

\* line 125: return integrals[:, :, : angmom_a_max + 1]
DoneCropEqDef ==
  pc[1] = "done" =>
    \A x \in DOMAIN tab : x[3] <= LA => tab[x] = Diff1D(q, x[3], x[2], x[1])
=============================================================================
