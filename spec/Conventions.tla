---------------------------- MODULE Conventions ----------------------------
(***************************************************************************)
(* Component conventions as a state machine (C10, C09c).  A convention of   *)
(* angular momentum l is                                                    *)
(*   cart   : a permutation of 1..NCart(l)  (order of Cartesian components, *)
(*            as indices into the documented order Layout!CartComps(l))     *)
(*   labels : a sequence of pure-function labels [neg, kind, m]             *)
(* A wrapper may request any of them; generate_transformation must honour   *)
(* a valid one exactly and reject an invalid one.  The machine starts from  *)
(* the documented default and applies generators: transpose two Cartesian   *)
(* components, transpose two labels, flip a sign, or CORRUPT a label        *)
(* (replace it by any label of the alphabet, which usually destroys         *)
(* validity).  TLC enumerates the reachable conventions (exhaustively up to *)
(* a depth bound; completely for small l); every reachable state is         *)
(* replayed into the code.                                                  *)
(*                                                                          *)
(* OUTPUT LAW for a valid convention (the specification of "honoured        *)
(* exactly"): with T0 the default matrix (Spherical.tla),                   *)
(*     T[r][c] = sgn(labels[r]) * T0[row of (kind, m)][cart[c]]             *)
(* and the "right" form is the transpose of the "left" form.                *)
(***************************************************************************)
EXTENDS Integers, Sequences, FiniteSets, Layout, TLC

CONSTANTS L,            \* angular momentum of this run
          MaxDepth,     \* bound on the number of generator applications
          GenCart, GenSwap, GenFlip, GenCorrupt   \* which generators are enabled (BOOLEAN)

VARIABLES cart, labels, depth
vars == <<cart, labels, depth>>

Lab(neg, kind, m) == [neg |-> neg, kind |-> kind, m |-> m]

DefaultLabels == [n \in 1..(2 * L + 1) |-> Lab(FALSE, SphLabels(L)[n][1], SphLabels(L)[n][2])]

\* labels a caller might write: the valid ones, both signs, and a few foreign ones
Alphabet == {Lab(ng, "c", m) : ng \in BOOLEAN, m \in 0..(L + 1)} \cup
            {Lab(ng, "s", m) : ng \in BOOLEAN, m \in 0..(L + 1)} \cup
            {Lab(FALSE, "x", 1)}

FullSet == {<<"c", m>> : m \in 0..L} \cup {<<"s", m>> : m \in 1..L}

Valid == /\ Len(labels) = 2 * L + 1
         /\ {<<labels[n].kind, labels[n].m>> : n \in 1..Len(labels)} = FullSet

Init == /\ cart = [c \in 1..NCart(L) |-> c]
        /\ labels = DefaultLabels
        /\ depth = 0

SwapSeq(s, i, j) == [s EXCEPT ![i] = s[j], ![j] = s[i]]

SwapCart(i, j) == GenCart /\ cart' = SwapSeq(cart, i, j) /\ UNCHANGED labels
SwapLab(i, j)  == GenSwap /\ labels' = SwapSeq(labels, i, j) /\ UNCHANGED cart
Flip(i)        == GenFlip /\ labels' = [labels EXCEPT ![i].neg = ~@] /\ UNCHANGED cart
Corrupt(i, x)  == GenCorrupt /\ labels' = [labels EXCEPT ![i] = x] /\ UNCHANGED cart

Next == /\ depth < MaxDepth
        /\ depth' = depth + 1
        /\ \/ \E i, j \in 1..NCart(L) : i < j /\ SwapCart(i, j)
           \/ \E i, j \in 1..(2 * L + 1) : i < j /\ SwapLab(i, j)
           \/ \E i \in 1..(2 * L + 1) : Flip(i)
           \/ \E i \in 1..(2 * L + 1), x \in Alphabet : Corrupt(i, x)

Spec == Init /\ [][Next]_vars

\* generators other than Corrupt preserve validity; cart stays a permutation
PermOK     == {cart[c] : c \in 1..NCart(L)} = 1..NCart(L)
ValidKept  == [][(~GenCorrupt) => (Valid => Valid')]_vars
StartValid == depth = 0 => Valid
=============================================================================
