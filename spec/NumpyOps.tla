------------------------------ MODULE NumpyOps ------------------------------
(***************************************************************************)
(* L3 -- semantics of the handful of numpy operations the assembly code of  *)
(* gbasis uses, on tensors with SYMBOLIC entries.                           *)
(*                                                                          *)
(* A tensor is [sh |-> <<n1, ..., nk>>, f |-> function on index tuples].    *)
(* Index tuples are 1-based; axis arguments are 0-based as in numpy.        *)
(* An entry is a formal sum, represented as a SET of terms; a term is       *)
(*    [b |-> atom, cj |-> 0 or 1 (complex-conjugated?), f |-> factors]      *)
(* where atom names an element of a block returned by                       *)
(* construct_array_contraction and factors is the multiset (sorted sequence *)
(* of integer codes) of the normalisation constants and transformation-     *)
(* matrix entries the element has been multiplied with.  The pipelines only *)
(* shuffle axes, scale by such symbols and contract with matrices, so no    *)
(* two terms of one entry ever coincide and set union is the sum.           *)
(*                                                                          *)
(* The module is bound to real numpy by NumpyOpsReplay: TLC-generated       *)
(* random operation sequences on labelled tensors are executed by numpy     *)
(* and compared entry by entry.                                             *)
(***************************************************************************)
EXTENDS Integers, Sequences, SequencesExt, FiniteSets, TLC

RECURSIVE Idx(_)
Idx(sh) == IF sh = <<>> THEN {<<>>}
           ELSE {<<i>> \o r : i \in 1..sh[1], r \in Idx(Tail(sh))}

\* TLC evaluates [i \in S |-> e] lazily and re-evaluates e at every application; Force makes the
\* table explicit once (semantically the identity).  Every operation below returns a forced tensor,
\* and every sequence of tensors is passed through Memo, otherwise one element access would rebuild
\* the whole chain of operations (measured: minutes -> seconds).
Force(t) == IF t.f = t.f THEN t ELSE t
Memo(x)  == IF x = x THEN x ELSE x

Tensor(sh, F(_)) == Force([sh |-> sh, f |-> [i \in Idx(sh) |-> F(i)]])
Rank(t) == Len(t.sh)

\* ---- symbols -------------------------------------------------------------
CodeN(k, m, a)    == 300000000 + k * 10000 + m * 100 + a      \* norm_cont[m, a] of shell k
CodeT(k, c, a)    == 200000000 + k * 10000 + c * 100 + a      \* transform of shell k, row c, column a
CodeU(r, p)       == 100000000 + r * 1000 + p                 \* user transformation matrix U[r, p]

InsertSorted(s, x) == SortSeq(Append(s, x), <)
TimesSym(entry, code) == {[t EXCEPT !.f = InsertSorted(@, code)] : t \in entry}
ConjEntry(entry)      == {[t EXCEPT !.cj = 1 - @] : t \in entry}
Atom(b)               == {[b |-> b, cj |-> 0, f |-> <<>>]}

\* ---- axis shuffles --------------------------------------------------------
SwapIdx(i, a, b) == [i EXCEPT ![a + 1] = i[b + 1], ![b + 1] = i[a + 1]]

SwapAxes(t, a, b) ==
  LET sh == SwapIdx(t.sh, a, b)
  IN  Force([sh |-> sh, f |-> [i \in Idx(sh) |-> t.f[SwapIdx(i, a, b)]]])

\* np.transpose(t, perm): result axis n is t's axis perm[n+1] (0-based values)
Transpose(t, perm) ==
  LET sh == [n \in 1..Len(perm) |-> t.sh[perm[n] + 1]]
      inv(i) == [d \in 1..Len(perm) |->
                   LET n == CHOOSE n \in 1..Len(perm) : perm[n] + 1 = d IN i[n]]
  IN  Force([sh |-> sh, f |-> [i \in Idx(sh) |-> t.f[inv(i)]]])

\* np.concatenate(t, axis=0) applied to ONE array t: iterates over axis 0 and joins the
\* sub-arrays along their first axis, i.e. merges axes 0 and 1 (row-major)
MergeFirst(t) ==
  LET n1 == t.sh[2]
      sh == <<t.sh[1] * n1>> \o SubSeq(t.sh, 3, Len(t.sh))
  IN  Force([sh |-> sh, f |-> [i \in Idx(sh) |->
         t.f[<<((i[1] - 1) \div n1) + 1, ((i[1] - 1) % n1) + 1>> \o Tail(i)]]])

\* reshape that merges axes (ax, ax+1) row-major
MergeAt(t, ax) ==
  LET n1 == t.sh[ax + 2]
      sh == SubSeq(t.sh, 1, ax) \o <<t.sh[ax + 1] * n1>> \o SubSeq(t.sh, ax + 3, Len(t.sh))
  IN  Force([sh |-> sh, f |-> [i \in Idx(sh) |->
         t.f[SubSeq(i, 1, ax) \o <<((i[ax + 1] - 1) \div n1) + 1, ((i[ax + 1] - 1) % n1) + 1>>
             \o SubSeq(i, ax + 2, Len(i))]]])

\* np.concatenate(<<t1, ..., tn>>, axis=ax)
RECURSIVE SumUpTo(_, _, _)
SumUpTo(ts, ax, n) == IF n = 0 THEN 0 ELSE ts[n].sh[ax + 1] + SumUpTo(ts, ax, n - 1)

Concat(tseq, ax) ==
  LET ts  == Memo(tseq)
      tot == SumUpTo(ts, ax, Len(ts))
      sh  == [ts[1].sh EXCEPT ![ax + 1] = tot]
      which(p) == CHOOSE n \in 1..Len(ts) : SumUpTo(ts, ax, n - 1) < p /\ p <= SumUpTo(ts, ax, n)
  IN  Force([sh |-> sh, f |-> [i \in Idx(sh) |->
         LET n == which(i[ax + 1])
         IN  ts[n].f[[i EXCEPT ![ax + 1] = @ - SumUpTo(ts, ax, n - 1)]]]])

\* ---- arithmetic -----------------------------------------------------------
\* np.tensordot(M, t, (1, ax)) with a matrix M of symbols: Sym(c, a) is the code of M[c, a].
\* The free axis of M comes first, then the remaining axes of t in order.
TensorDot(rows, cols, Sym(_, _), t, ax) ==
  LET rest == SubSeq(t.sh, 1, ax) \o SubSeq(t.sh, ax + 2, Len(t.sh))
      sh   == <<rows>> \o rest
      full(i, a) == SubSeq(i, 2, ax + 1) \o <<a>> \o SubSeq(i, ax + 2, Len(i))
  IN  Force([sh |-> sh, f |-> [i \in Idx(sh) |->
         UNION {TimesSym(t.f[full(i, a)], Sym(i[1], a)) : a \in 1..cols}]])

\* t *= norm.reshape(1,..,M,L,1,..): entry scaled by the symbol N(k, i[ax], i[ax+1])
NormMul(t, k, ax) ==
  Force([sh |-> t.sh, f |-> [i \in Idx(t.sh) |-> TimesSym(t.f[i], CodeN(k, i[ax + 1], i[ax + 2]))]])

Conj(t) == Force([sh |-> t.sh, f |-> [i \in Idx(t.sh) |-> ConjEntry(t.f[i])]])

=============================================================================
