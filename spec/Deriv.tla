-------------------------------- MODULE Deriv --------------------------------
(***************************************************************************)
(* L1/L2 -- derivatives of a Cartesian Gaussian primitive along one axis.   *)
(*                                                                          *)
(* DEFINITION.  d^m/dx^m [ x^a exp(-alpha x^2) ] = Q_{a,m}(x, alpha) exp(-alpha x^2) *)
(* where Q_{a,0} = x^a and Q_{a,m+1} = dQ/dx - 2 alpha x Q.  Q is a         *)
(* polynomial in x and alpha with INTEGER coefficients, represented as a    *)
(* function [<<i, j>> |-> coefficient of x^i alpha^j]; TLC works in true    *)
(* integers here (they stay far below 2^31 for a <= 8, m <= 6), so every    *)
(* identity below is an identity of polynomials: it holds for ALL real x    *)
(* and alpha, in particular on the coordinate planes x = 0.                 *)
(*                                                                          *)
(* AS IMPLEMENTED.                                                          *)
(*  General (gbasis/evals/_deriv.py 99-135): the Leibniz sum                *)
(*     sum_k C(m,k) a!/(a-m+k)! (-sqrt(alpha))^k x^(a-m+k) H_k(sqrt(alpha) x) *)
(*   over k >= max(0, m-a), with H_k the physicists' Hermite polynomial.    *)
(*  Direct (lines 241-387): hand-expanded first and second derivatives with *)
(*   the branches a = 0, a = 1, a >= 2.  It has no formula for m > 2.       *)
(***************************************************************************)
EXTENDS Integers, Sequences, SequencesExt, FiniteSets, FiniteSetsExt, TLC

CONSTANTS AMax, MMax

DX == AMax + MMax          \* largest power of x
DA == MMax                 \* largest power of alpha
Keys == (0..DX) \X (0..DA)

Zero == [k \in Keys |-> 0]
Mono(i, j, c) == [k \in Keys |-> IF k = <<i, j>> THEN c ELSE 0]
PlusB(p, q) == [k \in Keys |-> p[k] + q[k]]

\* dQ/dx - 2 alpha x Q
Step(p) ==
  [k \in Keys |->
     (IF k[1] + 1 <= DX THEN (k[1] + 1) * p[<<k[1] + 1, k[2]>>] ELSE 0)
     - (IF k[1] >= 1 /\ k[2] >= 1 THEN 2 * p[<<k[1] - 1, k[2] - 1>>] ELSE 0)]

RECURSIVE Q(_, _)
Q(a, m) == IF m = 0 THEN Mono(a, 0, 1) ELSE Step(Q(a, m - 1))

\* ---- helpers in true integers ------------------------------------------------
RECURSIVE FactI(_)
FactI(n) == IF n <= 1 THEN 1 ELSE n * FactI(n - 1)
CombI(n, k) == IF k < 0 \/ k > n THEN 0 ELSE FactI(n) \div (FactI(k) * FactI(n - k))
PermI(n, k) == IF k < 0 \/ k > n THEN 0 ELSE FactI(n) \div FactI(n - k)      \* scipy.special.perm
RECURSIVE Pow2(_)
Pow2(n) == IF n = 0 THEN 1 ELSE 2 * Pow2(n - 1)
Sgn(n) == IF n % 2 = 0 THEN 1 ELSE -1

SumB(S, F(_)) == FoldSet(LAMBDA x, acc : PlusB(F(x), acc), Zero, S)

(***************************************************************************)
(* General back-end.  H_k(y) = sum_j (-1)^j k!/(j! (k-2j)!) (2y)^(k-2j),    *)
(* y = sqrt(alpha) x, so (-sqrt(alpha))^k H_k = sum_j (-1)^(k+j) k!/(j!(k-2j)!) *)
(* 2^(k-2j) alpha^(k-j) x^(k-2j): integer powers of alpha only.             *)
(***************************************************************************)
General(a, m) ==
  SumB({k \in 0..m : k >= m - a},
       LAMBDA k :
         SumB(0..(k \div 2),
              LAMBDA j :
                Mono(a - m + k + k - 2 * j, k - j,
                     CombI(m, k) * PermI(a, m - k) * Sgn(k + j) * (FactI(k) \div (FactI(j) * FactI(k - 2 * j)))
                     * Pow2(k - 2 * j))))

(***************************************************************************)
(* Direct back-end, first and second order.                                 *)
(***************************************************************************)
Direct(a, m) ==
  CASE m = 0 -> Mono(a, 0, 1)
    [] m = 1 -> IF a = 0 THEN Mono(1, 1, -2)                                   \* -2 alpha x
                ELSE PlusB(Mono(a - 1, 0, a), Mono(a + 1, 1, -2))              \* x^(a-1) (a - 2 alpha x^2)
    [] m = 2 -> IF a = 0 THEN PlusB(Mono(2, 2, 4), Mono(0, 1, -2))             \* 4 alpha^2 x^2 - 2 alpha
                ELSE IF a = 1 THEN PlusB(Mono(3, 2, 4), Mono(1, 1, -6))        \* 4 alpha^2 x^3 - 6 alpha x
                ELSE PlusB(PlusB(Mono(a + 2, 2, 4), Mono(a, 1, -(4 * a + 2))), \* x^(a-2)(4 al^2 x^4 - al(4a+2) x^2 + a(a-1))
                           Mono(a - 2, 0, a * (a - 1)))

VARIABLES a, m, qtab          \* qtab: the non-zero coefficients <<i, j, c>> of Q(a, m), read by the harness
vars == <<a, m, qtab>>
Init == /\ a \in 0..AMax /\ m \in 0..MMax
        /\ qtab = {<<k[1], k[2], Q(a, m)[k]>> : k \in {kk \in Keys : Q(a, m)[kk] # 0}}
Next == UNCHANGED vars
Spec == Init /\ [][Next]_vars

GeneralIsDef == General(a, m) = Q(a, m)
DirectIsDef  == m <= 2 => Direct(a, m) = Q(a, m)
\* no negative power of x and no coefficient left outside the table
DegreeOK     == \A k \in Keys : Q(a, m)[k] # 0 => k[1] <= a + m /\ k[2] <= m
=============================================================================
