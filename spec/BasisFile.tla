------------------------------ MODULE BasisFile ------------------------------
(***************************************************************************)
(* L5 -- basis-set files (C18): abstract files, their rendering as lines in *)
(* the NWChem and Gaussian94 formats, the SPECIFICATION of what a parser    *)
(* must return (Columns), and the parsers of gbasis/parsers.py AS           *)
(* IMPLEMENTED at line granularity.                                         *)
(*                                                                          *)
(* An abstract file:  [pre |-> sequence of lines before the first element   *)
(*   ("comment" | "blank" | "keyword"), elems |-> sequence of elements      *)
(*   [sym, shells |-> sequence of [ls (<<l>> or <<0, 1>> for SP), K (number *)
(*   of primitives), M (coefficient columns per l)]], comm |-> BOOLEAN      *)
(*   (a comment line in front of every element), tail |-> BOOLEAN (closing  *)
(*   line)].  Numbers are abstract: exponent <<e, s, k>> = k-th exponent of *)
(*   shell s of element e, coefficient <<e, s, k, c>>.                      *)
(*                                                                          *)
(* Columns(f) -- the specification: for every element, in file order, every *)
(* coefficient column with its angular momentum and exponents; a combined   *)
(* SP shell contributes its s column(s) and then its p column(s).           *)
(*                                                                          *)
(* The parsers split the text with a regular expression that recognises a   *)
(* header line only when a newline precedes it, and discard the text before *)
(* the first recognised header only if that text contains a newline:        *)
(*   ParsePinned   -- that behaviour (0 lines before the first header: the  *)
(*                    first shell (NWChem) / element (Gaussian94) is lost;  *)
(*                    exactly 1 line: the fields are misaligned);           *)
(*   ParseRepaired -- the text is given a leading newline and the preamble  *)
(*                    is always discarded.                                  *)
(***************************************************************************)
EXTENDS Integers, Sequences, SequencesExt, FiniteSets, TLC

\* ---- rendering ------------------------------------------------------------------
Rows(e, s, sh) ==
  [k \in 1..sh.K |-> [kind |-> "row", exp |-> <<e, s, k>>,
                      coefs |-> [c \in 1..(sh.M * Len(sh.ls)) |-> <<e, s, k, c>>]]]

PreLines(f) == [n \in 1..Len(f.pre) |-> [kind |-> f.pre[n]]]

\* NWChem: every shell has its own "<symbol> <letters>" header line
RenderNW(f) ==
  PreLines(f) \o
  FlattenSeq([e \in 1..Len(f.elems) |->
     (IF f.comm THEN << [kind |-> "comment"] >> ELSE <<>>) \o
     FlattenSeq([s \in 1..Len(f.elems[e].shells) |->
        << [kind |-> "nwshell", sym |-> f.elems[e].sym, ls |-> f.elems[e].shells[s].ls] >>
        \o Rows(e, s, f.elems[e].shells[s])])]) \o
  (IF f.tail THEN << [kind |-> "end"] >> ELSE <<>>)

\* Gaussian94: "<symbol> 0", then "<letters> <K> 1.00" per shell, then "****".  The format has one
\* coefficient column per angular momentum letter, so a generalized shell with M columns is written as
\* M consecutive shells with the same exponents (which parse_gbs merges back).
RowsCol(e, s, sh, m) ==
  [k \in 1..sh.K |-> [kind |-> "row", exp |-> <<e, s, k>>, coefs |-> << <<e, s, k, m>> >>]]

GShell(e, s, sh) ==
  IF Len(sh.ls) > 1
  THEN << [kind |-> "gshell", ls |-> sh.ls, K |-> sh.K] >> \o Rows(e, s, sh)
  ELSE FlattenSeq([m \in 1..sh.M |-> << [kind |-> "gshell", ls |-> sh.ls, K |-> sh.K] >> \o RowsCol(e, s, sh, m)])

RenderGBS(f) ==
  PreLines(f) \o
  FlattenSeq([e \in 1..Len(f.elems) |->
     (IF f.comm THEN << [kind |-> "comment"] >> ELSE <<>>) \o
     << [kind |-> "gelem", sym |-> f.elems[e].sym] >> \o
     FlattenSeq([s \in 1..Len(f.elems[e].shells) |-> GShell(e, s, f.elems[e].shells[s])]) \o
     << [kind |-> "stars"] >>])

\* ---- specification ---------------------------------------------------------------
\* a column: <<symbol, l, exponents, coefficients>>
ShellColumns(sym, e, s, sh) ==
  FlattenSeq([n \in 1..Len(sh.ls) |->
     [m \in 1..sh.M |->
        <<sym, sh.ls[n], [k \in 1..sh.K |-> <<e, s, k>>],
          [k \in 1..sh.K |-> <<e, s, k, IF Len(sh.ls) = 1 THEN m ELSE n>>]>>]])

Columns(f) ==
  FlattenSeq([e \in 1..Len(f.elems) |->
     FlattenSeq([s \in 1..Len(f.elems[e].shells) |->
        ShellColumns(f.elems[e].sym, e, s, f.elems[e].shells[s])])])

\* ---- the parsers, as a fold over lines --------------------------------------------
IsHdr(line, fmt) == IF fmt = "nwchem" THEN line.kind = "nwshell" ELSE line.kind = "gelem"

\* state of the line machine: current symbol, current ls, rows of the open shell, finished columns
Close(st) ==
  IF st.rows = <<>> \/ st.ls = <<>> THEN [st EXCEPT !.rows = <<>>]
  ELSE LET K == Len(st.rows)
           ncol == Len(st.rows[1].coefs)
           M == IF Len(st.ls) = 1 THEN ncol ELSE 1
           cols == FlattenSeq([n \in 1..Len(st.ls) |->
                      [m \in 1..M |->
                         <<st.sym, st.ls[n], [k \in 1..K |-> st.rows[k].exp],
                           [k \in 1..K |-> st.rows[k].coefs[IF Len(st.ls) = 1 THEN m ELSE n]]>>]])
       IN  [st EXCEPT !.out = @ \o cols, !.rows = <<>>]

StepLine(st, line) ==
  CASE line.kind = "nwshell" -> [Close(st) EXCEPT !.sym = line.sym, !.ls = line.ls]
    [] line.kind = "gelem"   -> [Close(st) EXCEPT !.sym = line.sym, !.ls = <<>>]
    [] line.kind = "gshell"  -> [Close(st) EXCEPT !.ls = line.ls]
    [] line.kind = "row"     -> [st EXCEPT !.rows = Append(@, line)]
    [] OTHER                 -> st                       \* comment, blank, keyword, end, stars: no number row

ParseLines(lines) ==
  Close(FoldLeft(StepLine, [sym |-> "", ls |-> <<>>, rows |-> <<>>, out |-> <<>>], lines)).out

\* position of the first header line, 0 if none
FirstHdr(lines, fmt, from) ==
  LET S == {n \in from..Len(lines) : IsHdr(lines[n], fmt)} IN IF S = {} THEN 0 ELSE CHOOSE n \in S : \A m \in S : n <= m

\* the regular expression needs a newline in front of a header: the first line of the file never matches
ParsePinned(lines, fmt) ==
  LET h == FirstHdr(lines, fmt, 2)                    \* first header the split recognises
  IN  IF h = 0 THEN <<>>                              \* nothing recognised: everything is "preamble"
      ELSE IF h = 2 THEN <<"misaligned">>             \* one-line preamble kept: fields shift by one
      ELSE ParseLines(SubSeq(lines, h, Len(lines)))   \* preamble (>= 2 lines) dropped -- including a header on line 1

ParseRepaired(lines, fmt) ==
  LET h == FirstHdr(lines, fmt, 1)
  IN  IF h = 0 THEN <<>> ELSE ParseLines(SubSeq(lines, h, Len(lines)))

Render(f, fmt) == IF fmt = "nwchem" THEN RenderNW(f) ELSE RenderGBS(f)

RoundTrip(f, fmt)       == ParseRepaired(Render(f, fmt), fmt) = Columns(f)
PinnedRoundTrip(f, fmt) == ParsePinned(Render(f, fmt), fmt) = Columns(f)
=============================================================================
