------------------------------ MODULE Assembly ------------------------------
(***************************************************************************)
(* L3 -- the block-assembly pipelines of gbasis AS IMPLEMENTED              *)
(* (base_one.py, base_two_symm.py, base_two_asymm.py, base_four_symm.py:    *)
(* construct_array_cartesian / _spherical / _mix / _lincomb), statement by  *)
(* statement on symbolic tensors (NumpyOps.tla), and the SPECIFICATION they *)
(* are checked against: the documented layout (Layout.tla) with weights     *)
(* W = identity (Cartesian shell) or the shell's transformation matrix.     *)
(*                                                                          *)
(* Shells are abstract here: [M, Lc, Ls, typ] with Lc / Ls the numbers of   *)
(* Cartesian / pure components.  The pipelines never look at values, only   *)
(* at axis sizes, so pairwise distinct sizes >= 2 make the check            *)
(* shape-generic.  X is the size of one trailing (non-basis) axis.          *)
(***************************************************************************)
EXTENDS NumpyOps

CONSTANTS X,      \* size of the trailing axis
          Mut     \* "none", or the name of a seeded slip used as a negative control of the comparison

NC(s)   == IF s.typ = "cartesian" THEN s.Lc ELSE s.Ls
SizeA(s) == s.M * NC(s)

PositionsA(B) ==
  FlattenSeq([k \in 1..Len(B) |->
     FlattenSeq([m \in 1..B[k].M |-> [c \in 1..NC(B[k]) |-> <<k, m, c>>]])])

ToSph(B, k, t, ax) == TensorDot(B[k].Ls, B[k].Lc, LAMBDA c, a : CodeT(k, c, a), t, ax)

(***************************************************************************)
(* Weighted, normalised Cartesian components that make up output component  *)
(* c of segment m of shell k:  sum_a W[c,a] * norm[m,a] * (atom with a).    *)
(* Returned as the set of pairs <<a, factor codes>>.                        *)
(***************************************************************************)
Parts(B, k, m, c, off) ==
  IF B[k].typ = "cartesian" THEN {<<c, <<CodeN(k + off, m, c)>> >>}
  ELSE {<<a, <<CodeN(k + off, m, a), CodeT(k + off, c, a)>> >> : a \in 1..B[k].Lc}


(***************************************************************************)
(* ONE INDEX  (base_one.py)                                                 *)
(***************************************************************************)
Block1(B, k) == Tensor(<<B[k].M, B[k].Lc, X>>, LAMBDA i : Atom(<<k, i[1], i[2], i[3]>>))

\* lines 130-137
Cart1(B) ==
  Concat([k \in 1..Len(B) |-> MergeFirst(IF Mut = "component_major" THEN SwapAxes(NormMul(Block1(B, k), k, 0), 0, 1)
                                          ELSE NormMul(Block1(B, k), k, 0))], 0)

\* lines 158-177
Sph1(B) ==
  Concat([k \in 1..Len(B) |->
     LET mc  == NormMul(Block1(B, k), k, 0)
         mc2 == ToSph(B, k, mc, 1)                       \* (Ls, M, X)
     IN  MergeFirst(SwapAxes(mc2, 0, 1))], 0)

\* lines 221-243
Mix1(B) ==
  Concat([k \in 1..Len(B) |->
     LET mc == NormMul(Block1(B, k), k, 0)
     IN  IF B[k].typ = "spherical"
         THEN MergeFirst(SwapAxes(ToSph(B, k, mc, 1), 0, 1))
         ELSE MergeFirst(mc)], 0)

AllTyp(B, ty) == \A k \in 1..Len(B) : B[k].typ = ty
Dispatch1(B) == IF AllTyp(B, "cartesian") THEN Cart1(B)
                ELSE IF AllTyp(B, "spherical") THEN Sph1(B) ELSE Mix1(B)

\* lines 284-294: np.tensordot(transform, array, (1, 0)),  transform is (R, N)
Lin1(B, R) ==
  LET arr == Dispatch1(B)
  IN  TensorDot(R, arr.sh[1], LAMBDA r, p : CodeU(r, p), arr, 0)

Expected1(B) ==
  LET pos == PositionsA(B)
  IN  Tensor(<<Len(pos), X>>, LAMBDA i :
        LET t == pos[i[1]]
        IN  {[b |-> <<t[1], t[2], pr[1], i[2]>>, cj |-> 0, f |-> SortSeq(pr[2], <)] :
               pr \in Parts(B, t[1], t[2], t[3], 0)})

ExpectedLin1(B, R) ==
  LET e == Expected1(B)
  IN  Tensor(<<R, X>>, LAMBDA i :
        UNION {TimesSym(e.f[<<p, i[2]>>], CodeU(i[1], p)) : p \in 1..e.sh[1]})

(***************************************************************************)
(* TWO INDICES                                                              *)
(*   B1, B2: the bases of the two indices; off2 shifts the shell numbers of *)
(*   the second basis in symbol codes and atoms (0 for the symmetric class, *)
(*   where both indices run over the same shells).                          *)
(***************************************************************************)
Block2(B1, B2, k1, k2, off2) ==
  Tensor(<<B1[k1].M, B1[k1].Lc, B2[k2].M, B2[k2].Lc, X>>,
         LAMBDA i : Atom(<<k1, k2 + off2, i[1], i[2], i[3], i[4], i[5]>>))

Norm2(B1, B2, k1, k2, off2) == NormMul(NormMul(Block2(B1, B2, k1, k2, off2), k1, 0), k2 + off2, 2)

\* base_two_symm.py 159-170 / base_two_asymm.py 180-190
CartBlock2(b) ==
  LET b1 == MergeFirst(IF Mut = "component_major" THEN SwapAxes(b, 0, 1) ELSE b)   \* (M1 L1, M2, L2, X)
      b2 == SwapAxes(SwapAxes(b1, 0, 1), 1, 2)              \* (M2, L2, M1 L1, X)
  IN  SwapAxes(MergeFirst(b2), 0, 1)                        \* (M1 L1, M2 L2, X)

\* base_two_symm.py 237-244 / base_two_asymm.py 246-252
SphBlock2(B1, B2, k1, k2, off2, b) ==
  LET s1 == TensorDot(B1[k1].Ls, B1[k1].Lc, LAMBDA c, a : CodeT(k1, c, a), b, 1)     \* (Ls1, M1, M2, L2, X)
      s2 == MergeFirst(SwapAxes(s1, 0, 1))                                           \* (M1 Ls1, M2, L2, X)
      s3 == TensorDot(B2[k2].Ls, B2[k2].Lc, LAMBDA c, a : CodeT(k2 + off2, c, a), s2, 2)  \* (Ls2, M1Ls1, M2, X)
      s4 == SwapAxes(SwapAxes(s3, 0, 1), 0, 2)                                       \* (M2, Ls2, M1Ls1, X)
  IN  SwapAxes(MergeFirst(s4), 0, 1)

\* base_two_symm.py 319-339 / base_two_asymm.py 343-362
MixBlock2(B1, B2, k1, k2, off2, b) ==
  LET m1 == IF B1[k1].typ = "spherical"
            THEN SwapAxes(TensorDot(B1[k1].Ls, B1[k1].Lc, LAMBDA c, a : CodeT(k1, c, a), b, 1), 0, 1)
            ELSE b
      m2 == MergeFirst(m1)                                                           \* (M1 n1, M2, L2, X)
      m3 == IF B2[k2].typ = "spherical"
            THEN SwapAxes(SwapAxes(
                   TensorDot(B2[k2].Ls, B2[k2].Lc, LAMBDA c, a : CodeT(k2 + off2, c, a), m2, 2), 0, 1), 0, 2)
            ELSE SwapAxes(SwapAxes(m2, 0, 1), 1, 2)
  IN  SwapAxes(MergeFirst(m3), 0, 1)

Pipe2(B1, B2, k1, k2, off2, mode) ==
  LET b == Norm2(B1, B2, k1, k2, off2)
  IN  Force(IF mode = "cartesian" THEN CartBlock2(b)
            ELSE IF mode = "spherical" THEN SphBlock2(B1, B2, k1, k2, off2, b)
            ELSE MixBlock2(B1, B2, k1, k2, off2, b))

Mode(B1, B2) == IF AllTyp(B1, "cartesian") /\ AllTyp(B2, "cartesian") THEN "cartesian"
                ELSE IF AllTyp(B1, "spherical") /\ AllTyp(B2, "spherical") THEN "spherical" ELSE "mix"

\* ---- asymmetric class: every block computed (base_two_asymm.py) ----------
Asym2(B1, B2) ==
  Concat([k1 \in 1..Len(B1) |->
     Concat([k2 \in 1..Len(B2) |-> Pipe2(B1, B2, k1, k2, Len(B1), Mode(B1, B2))], 1)], 0)

\* lines 447-452; U1 is (R1, N1) with codes CodeU, U2 is (R2, N2) with codes CodeU + 500000
LinAsym2(B1, B2, R1, R2) ==
  LET arr == Asym2(B1, B2)
      a1  == TensorDot(R1, arr.sh[1], LAMBDA r, p : CodeU(r, p), arr, 0)
      a2  == TensorDot(R2, arr.sh[2], LAMBDA r, p : CodeU(r, p) + 500000, a1, 1)
  IN  SwapAxes(a2, 0, 1)

\* ---- symmetric class: upper triangle computed, the rest copied ----------
\* base_two_symm.py 172-181: Fill = "transpose" (pinned tree) or "conjtranspose" (repaired)
Sym2(B, fill) ==
  LET n  == Len(B)
      up == Memo([k1 \in 1..n |-> [k2 \in 1..n |->
               IF k1 <= k2 THEN Pipe2(B, B, k1, k2, 0, Mode(B, B)) ELSE <<>>]])
      lowfill(t) == IF fill = "conjtranspose" THEN Conj(SwapAxes(t, 0, 1)) ELSE SwapAxes(t, 0, 1)
      all == Memo([k1 \in 1..n |-> [k2 \in 1..n |->
               IF k1 < k2 THEN up[k1][k2] ELSE lowfill(up[k2][k1])]])   \* tril_indices includes the diagonal
  IN  Concat([k1 \in 1..n |-> Concat(all[k1], 1)], 0)

\* lines 406-409
LinSym2(B, R, fill) ==
  LET arr == Sym2(B, fill)
      a1  == TensorDot(R, arr.sh[1], LAMBDA r, p : CodeU(r, p), arr, 0)
      a2  == TensorDot(R, arr.sh[2], LAMBDA r, p : CodeU(r, p), a1, 1)
  IN  SwapAxes(a2, 0, 1)

\* ---- specification ---------------------------------------------------------
\* canonical name of an element of a kernel block of class "symmetric" / "hermitian":
\* <a|O|b> = conj <b|O|a>, so the orientation with the smaller (shell, segment, component) first
Canon2(t, class) ==
  LET b == t.b
      flip == b[1] > b[2] \/ (b[1] = b[2] /\ (b[3] > b[5] \/ (b[3] = b[5] /\ b[4] > b[6])))
      same == b[1] = b[2] /\ b[3] = b[5] /\ b[4] = b[6]
  IN  IF flip
      THEN [b |-> <<b[2], b[1], b[5], b[6], b[3], b[4], b[7]>>,
            cj |-> IF class = "hermitian" THEN 1 - t.cj ELSE 0, f |-> t.f]
      ELSE [t EXCEPT !.cj = IF class = "hermitian" THEN (IF same THEN 0 ELSE @) ELSE 0]
\* (a diagonal element <a|O|a> of a Hermitian operator is real: conj is the identity on it)

CanonT2(t, class) == Force([sh |-> t.sh, f |-> [i \in Idx(t.sh) |-> {Canon2(x, class) : x \in t.f[i]}]])

Expected2(B1, B2, off2) ==
  LET p1 == PositionsA(B1)
      p2 == PositionsA(B2)
  IN  Tensor(<<Len(p1), Len(p2), X>>, LAMBDA i :
        LET s == p1[i[1]]
            t == p2[i[2]]
        IN  {[b |-> <<s[1], t[1] + off2, s[2], u[1], t[2], v[1], i[3]>>, cj |-> 0,
              f |-> SortSeq(u[2] \o v[2], <)] :
               u \in Parts(B1, s[1], s[2], s[3], 0), v \in Parts(B2, t[1], t[2], t[3], off2)})

ExpectedLin2(e, R1, R2, code2off) ==
  Tensor(<<R1, R2, X>>, LAMBDA i :
    UNION {TimesSym(TimesSym(e.f[<<p, q, i[3]>>], CodeU(i[1], p)), CodeU(i[2], q) + code2off) :
             p \in 1..e.sh[1], q \in 1..e.sh[2]})

SameTensor(s, t) == s.sh = t.sh /\ s.f = t.f

(***************************************************************************)
(* FOUR INDICES  (base_four_symm.py)                                        *)
(***************************************************************************)
Block4(B, k) ==     \* k = <<k1, k2, k3, k4>>
  Tensor(<<B[k[1]].M, B[k[1]].Lc, B[k[2]].M, B[k[2]].Lc, B[k[3]].M, B[k[3]].Lc, B[k[4]].M, B[k[4]].Lc>>,
         LAMBDA i : Atom(<<k, i>>))

Norm4(B, k) == NormMul(NormMul(NormMul(NormMul(Block4(B, k), k[1], 0), k[2], 2),
                               IF Mut = "norm4" THEN k[4] ELSE k[3], 4), k[4], 6)

RECURSIVE SwapChain(_, _, _)       \* swapaxes(0,1), (1,2), ..., (n-1, n)
SwapChain(t, from, to) == IF from >= to THEN t ELSE SwapChain(SwapAxes(t, from, from + 1), from + 1, to)

\* lines 322-349 (spherical) / 472-517 (mix): transform index n (1..4) if asked to
Sph4Step(B, k, t, n) ==
  SwapChain(TensorDot(B[k[n]].Ls, B[k[n]].Lc, LAMBDA c, a : CodeT(k[n], c, a), t, 2 * n - 1), 0, 2 * n - 1)

Trans4(B, k, t, which) ==    \* which[n] = TRUE: index n is transformed
  LET t1 == IF which[1] THEN Sph4Step(B, k, t, 1) ELSE t
      t2 == IF which[2] THEN Sph4Step(B, k, t1, 2) ELSE t1
      t3 == IF which[3] THEN Sph4Step(B, k, t2, 3) ELSE t2
  IN  IF which[4] THEN Sph4Step(B, k, t3, 4) ELSE t3

\* the reshape of lines 207-213: merge (0,1), (2,3), (4,5), (6,7)
Merge4(t) == MergeAt(MergeAt(MergeAt(MergeAt(t, 6), 4), 2), 0)

Pipe4(B, k) ==
  LET mode == Mode(B, B)
      which == [n \in 1..4 |-> mode = "spherical" \/ (mode = "mix" /\ B[k[n]].typ = "spherical")]
  IN  Force(Merge4(Trans4(B, k, Norm4(B, k), which)))

\* unique pairs of pairs: it.combinations_with_replacement(enumerate(contractions), 2), then pairs[ind:]
PairList(n) == SortSeq(SetToSeq({<<i, j>> \in (1..n) \X (1..n) : i <= j}),
                       LAMBDA a, b : a[1] < b[1] \/ (a[1] = b[1] /\ a[2] < b[2]))

\* lines 215-226: the eight images of a computed block, as <<target block index, tensor>>
Images(k, t) ==
  LET i == k[1]  j == k[2]  kk == k[3]  l == k[4]
      s13_02 == SwapAxes(SwapAxes(t, 1, 3), 0, 2)
  IN  << <<<<i, j, kk, l>>, t>>,
         <<<<i, j, l, kk>>, SwapAxes(t, 2, 3)>>,
         <<<<j, i, kk, l>>, SwapAxes(t, 0, 1)>>,
         <<<<j, i, l, kk>>, SwapAxes(SwapAxes(t, 2, 3), 0, 1)>>,
         <<<<kk, l, i, j>>, s13_02>>,
         <<<<l, kk, i, j>>, SwapAxes(s13_02, 0, 1)>>,
         <<<<kk, l, j, i>>, SwapAxes(s13_02, 2, 3)>>,
         <<<<l, kk, j, i>>, SwapAxes(SwapAxes(t, 1, 2), 0, 3)>> >>

\* the loop assigns in order; a later assignment to the same slot overwrites an earlier one
Sym4Blocks(B) ==
  LET n  == Len(B)
      pl == PairList(n)
      quads == FlattenSeq([a \in 1..Len(pl) |-> [b \in 1..(Len(pl) - a + 1) |->
                  <<pl[a][1], pl[a][2], pl[a + b - 1][1], pl[a + b - 1][2]>>]])
      assigns == Memo(FlattenSeq([q \in 1..Len(quads) |-> Images(quads[q], Pipe4(B, quads[q]))]))
  IN  Memo([kq \in (1..n) \X (1..n) \X (1..n) \X (1..n) |->
         LET hits == {a \in 1..Len(assigns) : assigns[a][1] = kq}
         IN  assigns[CHOOSE a \in hits : \A a2 \in hits : a2 <= a][2]])

Sym4(B) ==
  LET n  == Len(B)
      bl == Sym4Blocks(B)
  IN  Concat([k1 \in 1..n |-> Concat([k2 \in 1..n |-> Concat([k3 \in 1..n |->
         Concat([k4 \in 1..n |-> bl[<<k1, k2, k3, k4>>]], 3)], 2)], 1)], 0)

\* lines 611-616
LinSym4(B, R) ==
  LET arr == Sym4(B)
      U(t, ax) == TensorDot(R, arr.sh[1], LAMBDA r, p : CodeU(r, p), t, ax)
  IN  SwapAxes(SwapAxes(U(U(U(U(arr, 0), 1), 2), 3), 0, 3), 1, 2)

\* canonical name of (ab|cd) under the eight-fold symmetry: the lexicographically least image
Fn4(b, n) == <<b[1][n], b[2][2 * n - 1], b[2][2 * n]>>     \* (shell, segment, component) of index n
LexLE(x, y) == \/ x[1] < y[1]
               \/ x[1] = y[1] /\ (x[2] < y[2] \/ (x[2] = y[2] /\ x[3] <= y[3]))
Canon4(t) ==
  LET b == t.b
      f == [n \in 1..4 |-> Fn4(b, n)]
      ab == IF LexLE(f[1], f[2]) THEN <<f[1], f[2]>> ELSE <<f[2], f[1]>>
      cd == IF LexLE(f[3], f[4]) THEN <<f[3], f[4]>> ELSE <<f[4], f[3]>>
      first == IF LexLE(ab[1], cd[1]) /\ (ab[1] # cd[1] \/ LexLE(ab[2], cd[2])) THEN <<ab, cd>> ELSE <<cd, ab>>
      g == <<first[1][1], first[1][2], first[2][1], first[2][2]>>
  IN  [b |-> << <<g[1][1], g[2][1], g[3][1], g[4][1]>>,
                <<g[1][2], g[1][3], g[2][2], g[2][3], g[3][2], g[3][3], g[4][2], g[4][3]>> >>,
       cj |-> 0, f |-> t.f]
CanonT4(t) == Force([sh |-> t.sh, f |-> [i \in Idx(t.sh) |-> {Canon4(x) : x \in t.f[i]}]])

Expected4(B) ==
  LET p == PositionsA(B)
  IN  Tensor(<<Len(p), Len(p), Len(p), Len(p)>>, LAMBDA i :
        LET s == [n \in 1..4 |-> p[i[n]]]
        IN  {[b |-> << <<s[1][1], s[2][1], s[3][1], s[4][1]>>,
                       <<s[1][2], u1[1], s[2][2], u2[1], s[3][2], u3[1], s[4][2], u4[1]>> >>,
              cj |-> 0, f |-> SortSeq(u1[2] \o u2[2] \o u3[2] \o u4[2], <)] :
               u1 \in Parts(B, s[1][1], s[1][2], s[1][3], 0), u2 \in Parts(B, s[2][1], s[2][2], s[2][3], 0),
               u3 \in Parts(B, s[3][1], s[3][2], s[3][3], 0), u4 \in Parts(B, s[4][1], s[4][2], s[4][3], 0)})

\* U applied to basis index n (0-based axis) of an expected tensor, axis order kept
ApplyU(t, ax, R) ==
  LET d == TensorDot(R, t.sh[ax + 1], LAMBDA r, p : CodeU(r, p), t, ax)      \* new axis first
      perm == [n \in 1..Len(t.sh) |-> IF n - 1 < ax THEN n ELSE IF n - 1 = ax THEN 0 ELSE n - 1]
  IN  Transpose(d, perm)

ExpectedLin4(e, R) == ApplyU(ApplyU(ApplyU(ApplyU(e, 0, R), 1, R), 2, R), 3, R)
=============================================================================
