-------------------------------- MODULE HGP2e --------------------------------
(***************************************************************************)
(* L2 -- gbasis/integrals/_two_elec_int.py (_compute_two_elec_integrals,    *)
(* lines 283-814) AS IMPLEMENTED for one primitive quartet: the             *)
(* Head-Gordon-Pople chain                                                  *)
(*    vertical   [a0|00]^(m)      on the first centre, auxiliary index m    *)
(*    transfer   [a0|c0]          electron transfer to the third centre     *)
(*    horizontal [a0|cd]          transfer c -> d with C - D                *)
(*    horizontal [ab|cd]          transfer a -> b with A - B                *)
(* As in OS1e.tla a table entry is its coefficient vector over the Boys     *)
(* functions F_0, F_1, ... (a polynomial in a formal f over F_P) and the    *)
(* prefactor 2 pi^(5/2) / (p q sqrt(p+q)) K_AB K_CD is divided out; the     *)
(* base is [00|00]^(m) = f^m.  The definition side is Rys!Rys2DTable (the   *)
(* bivariate-normal moments): [ab|cd]^(m) = f^m * prod_axis I_(a b c d).    *)
(*                                                                          *)
(* The tables are numpy zeros of size m_max in the recursed indices and     *)
(* the recursions also write entries that depend on slots never filled;     *)
(* the machine reproduces that, and each invariant states the region in     *)
(* which entries are meaningful (total order <= m_max - 1), which contains  *)
(* everything the code finally selects.                                     *)
(***************************************************************************)
EXTENDS Rys, TLC

CONSTANTS Slip,        \* "none" | "transfer": a seeded slip (y component used in the z electron-transfer step)
          Quartets,    \* set of triples of DERIVED axis records (Rys!Derive2), one per axis
          Shapes       \* set of <<la, lb, lc, ld>>

VARIABLES r, shape, tabs, vert, et, hd, hb, pc, fresh
vars == <<r, shape, tabs, vert, et, hd, hb, pc, fresh>>

LA == shape[1]   LB == shape[2]   LC == shape[3]   LD == shape[4]
MM  == LA + LB + LC + LD + 1          \* m_max
MMA == LA + LB + 1                    \* m_max_a
MMC == LC + LD + 1                    \* m_max_c

D(x) == r[x]
PZ == <<0>>
FPow(m) == [n \in 1..(m + 1) |-> IF n = m + 1 THEN 1 ELSE 0]

P_(x)   == D(x).p
Q_(x)   == D(x).q
RhoP(x) == Mul(Mul(D(x).q, D(x).ipq), 1)                 \* harm_mean / exps_sum_one = q / (p + q)
I2P(x)  == Mul(Inv(D(x).p), Inv(2))
I2Q(x)  == Mul(Inv(D(x).q), Inv(2))
PoQ(x)  == Mul(D(x).p, Inv(D(x).q))                       \* exps_sum_one / exps_sum_two
PA_(x)  == D(x).pa
QC_(x)  == D(x).qc
PQ_(x)  == D(x).pq
AB_(x)  == D(x).ab
CD_(x)  == D(x).cd

Tri(n) == {<<x, y, z>> : x \in 0..n, y \in 0..n, z \in 0..n}

Init ==
  /\ r \in Quartets /\ shape \in Shapes
  \* the definition, evaluated once per run of the machine (TLC would re-evaluate an operator at every use)
  /\ tabs = [x \in 1..3 |-> Rys2DTable(r[x], shape[1] + shape[2] + shape[3] + shape[4], shape[2], shape[3] + shape[4], shape[4])]
  /\ vert = [k \in {<<m, a>> : m \in 0..(shape[1] + shape[2] + shape[3] + shape[4]),
                               a \in Tri(shape[1] + shape[2] + shape[3] + shape[4])} |-> PZ]
  /\ et = <<>> /\ hd = <<>> /\ hb = <<>>
  /\ pc = <<"base", 0, 0>>
  /\ fresh = {}

Bump(a, x, d) == [a EXCEPT ![x] = @ + d]

\* ---- vertical recursion, lines 339-399 -------------------------------------------------
Base ==
  /\ pc[1] = "base"
  /\ vert' = [k \in DOMAIN vert |-> IF k[2] = <<0, 0, 0>> THEN FPow(k[1]) ELSE vert[k]]
  /\ fresh' = {k \in DOMAIN vert : k[2] = <<0, 0, 0>>}
  /\ UNCHANGED <<et, hd, hb>>
  /\ pc' = <<"vert", 1, 0>>

VVal(k, x) ==
  LET m == k[1]
      a == Bump(k[2], x, -1)                       \* the entry being raised
      n == a[x]
      t1 == PScale(PA_(x), vert[<<m, a>>])
      t2 == PScale(Mul(RhoP(x), PQ_(x)), vert[<<m + 1, a>>])
      t3 == IF n >= 1
            THEN PScale(Mul(FromInt(n), I2P(x)),
                        PSub(vert[<<m, Bump(a, x, -1)>>], PScale(RhoP(x), vert[<<m + 1, Bump(a, x, -1)>>])))
            ELSE PZ
  IN  PTrim(PAdd(PSub(t1, t2), t3))

VTargets(x, n) == {k \in DOMAIN vert : k[1] <= MM - 2 /\ k[2][x] = n + 1 /\ \A y \in 1..3 : y > x => k[2][y] = 0}

Vertical ==
  /\ pc[1] = "vert"
  /\ LET x == pc[2]   n == pc[3] IN
     IF n <= MM - 2
     THEN /\ vert' = [k \in DOMAIN vert |-> IF k \in VTargets(x, n) THEN VVal(k, x) ELSE vert[k]]
          /\ fresh' = VTargets(x, n)
          /\ pc' = <<"vert", x, n + 1>>
     ELSE /\ UNCHANGED vert /\ fresh' = {}
          /\ pc' = IF x < 3 THEN <<"vert", x + 1, 0>> ELSE <<"copy1", 0, 0>>
  /\ UNCHANGED <<et, hd, hb>>

\* ---- electron transfer, lines 413-526 --------------------------------------------------
Copy1 ==
  /\ pc[1] = "copy1"
  /\ et' = [k \in {<<c, a>> : c \in Tri(MMC - 1), a \in Tri(MM - 1)} |-> IF k[1] = <<0, 0, 0>> THEN vert[<<0, k[2]>>] ELSE PZ]
  /\ fresh' = {} /\ UNCHANGED <<vert, hd, hb>>
  /\ pc' = <<"et", 1, 0>>

EVal(k, x) ==
  LET c == Bump(k[1], x, -1)
      a == k[2]
      xs == IF Slip = "transfer" /\ x = 3 /\ c[3] >= 1 /\ a[3] >= 1 THEN 2 ELSE x      \* the seeded slip
      t1 == PScale(Add(QC_(x), Mul(PoQ(x), PA_(xs))), et[<<c, a>>])
      t2 == IF a[x] >= 1 THEN PScale(Mul(FromInt(a[x]), I2Q(x)), et[<<c, Bump(a, x, -1)>>]) ELSE PZ
      t3 == IF c[x] >= 1 THEN PScale(Mul(FromInt(c[x]), I2Q(x)), et[<<Bump(c, x, -1), a>>]) ELSE PZ
      t4 == PScale(PoQ(x), et[<<c, Bump(a, x, 1)>>])
  IN  PTrim(PSub(PAdd(PAdd(t1, t2), t3), t4))

ETargets(x, n) == {k \in DOMAIN et : k[1][x] = n + 1 /\ k[2][x] <= MM - 2 /\ \A y \in 1..3 : y > x => k[1][y] = 0}

Transfer ==
  /\ pc[1] = "et"
  /\ LET x == pc[2]   n == pc[3] IN
     IF n <= MMC - 2
     THEN /\ et' = [k \in DOMAIN et |-> IF k \in ETargets(x, n) THEN EVal(k, x) ELSE et[k]]
          /\ fresh' = ETargets(x, n)
          /\ pc' = <<"et", x, n + 1>>
     ELSE /\ UNCHANGED et /\ fresh' = {}
          /\ pc' = IF x < 3 THEN <<"et", x + 1, 0>> ELSE <<"copy2", 0, 0>>
  /\ UNCHANGED <<vert, hd, hb>>

\* ---- horizontal recursion c -> d, lines 567-674 (a restricted to m_max_a) --------------
Copy2 ==
  /\ pc[1] = "copy2"
  /\ hd' = [k \in {<<d, c, a>> : d \in Tri(LD), c \in Tri(MMC - 1), a \in Tri(MMA - 1)} |->
              IF k[1] = <<0, 0, 0>> THEN et[<<k[2], k[3]>>] ELSE PZ]
  /\ fresh' = {} /\ UNCHANGED <<vert, et, hb>>
  /\ pc' = <<"hd", 1, 0>>

HDVal(k, x) ==
  LET d == Bump(k[1], x, -1)
  IN  PTrim(PAdd(hd[<<d, Bump(k[2], x, 1), k[3]>>], PScale(CD_(x), hd[<<d, k[2], k[3]>>])))
HDTargets(x, n) == {k \in DOMAIN hd : k[1][x] = n + 1 /\ k[2][x] <= MMC - 2 /\ \A y \in 1..3 : y > x => k[1][y] = 0}

HorizD ==
  /\ pc[1] = "hd"
  /\ LET x == pc[2]   n == pc[3] IN
     IF n <= LD - 1
     THEN /\ hd' = [k \in DOMAIN hd |-> IF k \in HDTargets(x, n) THEN HDVal(k, x) ELSE hd[k]]
          /\ fresh' = HDTargets(x, n)
          /\ pc' = <<"hd", x, n + 1>>
     ELSE /\ UNCHANGED hd /\ fresh' = {}
          /\ pc' = IF x < 3 THEN <<"hd", x + 1, 0>> ELSE <<"copy3", 0, 0>>
  /\ UNCHANGED <<vert, et, hb>>

\* ---- horizontal recursion a -> b, lines 688-788; the (c, d) components were selected: |c| = LC, |d| = LD
Sel(n, l) == {t \in Tri(n) : t[1] + t[2] + t[3] = l}
Copy3 ==
  /\ pc[1] = "copy3"
  /\ hb' = [k \in {<<b, a, d, c>> : b \in Tri(LB), a \in Tri(MMA - 1), d \in Sel(LD, LD), c \in Sel(LC, LC)} |->
              IF k[1] = <<0, 0, 0>> THEN hd[<<k[3], k[4], k[2]>>] ELSE PZ]
  /\ fresh' = {} /\ UNCHANGED <<vert, et, hd>>
  /\ pc' = <<"hb", 1, 0>>

HBVal(k, x) ==
  LET b == Bump(k[1], x, -1)
  IN  PTrim(PAdd(hb[<<b, Bump(k[2], x, 1), k[3], k[4]>>], PScale(AB_(x), hb[<<b, k[2], k[3], k[4]>>])))
HBTargets(x, n) == {k \in DOMAIN hb : k[1][x] = n + 1 /\ k[2][x] <= MMA - 2 /\ \A y \in 1..3 : y > x => k[1][y] = 0}

HorizB ==
  /\ pc[1] = "hb"
  /\ LET x == pc[2]   n == pc[3] IN
     IF n <= LB - 1
     THEN /\ hb' = [k \in DOMAIN hb |-> IF k \in HBTargets(x, n) THEN HBVal(k, x) ELSE hb[k]]
          /\ fresh' = HBTargets(x, n)
          /\ pc' = <<"hb", x, n + 1>>
     ELSE /\ UNCHANGED hb /\ fresh' = {}
          /\ pc' = IF x < 3 THEN <<"hb", x + 1, 0>> ELSE <<"done", 0, 0>>
  /\ UNCHANGED <<vert, et, hd>>

Next == (Base \/ Vertical \/ Copy1 \/ Transfer \/ Copy2 \/ HorizD \/ Copy3 \/ HorizB) /\ UNCHANGED <<r, shape, tabs>>
Spec == Init /\ [][Next]_vars

(***************************************************************************)
(* Definition and invariants.                                               *)
(***************************************************************************)
Def(a, b, c, d) ==
  PTrim(PProd(<<tabs[1][a[1] + 1][b[1] + 1][c[1] + 1][d[1] + 1], tabs[2][a[2] + 1][b[2] + 1][c[2] + 1][d[2] + 1],
                tabs[3][a[3] + 1][b[3] + 1][c[3] + 1][d[3] + 1]>>))
Shift(p, m) == IF PTrim(p) = <<0>> THEN <<0>> ELSE [n \in 1..(Len(p) + m) |-> IF n <= m THEN 0 ELSE p[n - m]]
Z3 == <<0, 0, 0>>
Tot(t) == t[1] + t[2] + t[3]

VertOK == pc[1] \in {"vert", "copy1"} =>
            \A k \in fresh : k[1] + Tot(k[2]) <= MM - 1 => vert[k] = PTrim(Shift(Def(k[2], Z3, Z3, Z3), k[1]))
TransferOK == pc[1] \in {"et", "copy2"} =>
            \A k \in fresh : Tot(k[1]) + Tot(k[2]) <= MM - 1 => et[k] = Def(k[2], Z3, k[1], Z3)
HorizDOK == pc[1] \in {"hd", "copy3"} =>
            \A k \in fresh : Tot(k[1]) + Tot(k[2]) + Tot(k[3]) <= MM - 1 /\ Tot(k[1]) + Tot(k[2]) <= MMC - 1 =>
                               hd[k] = Def(k[3], Z3, k[2], k[1])
HorizBOK == pc[1] \in {"hb", "done"} =>
            \A k \in fresh : Tot(k[1]) + Tot(k[2]) <= MMA - 1 => hb[k] = Def(k[2], k[1], k[4], k[3])
DoneOK == pc[1] = "done" =>
            \A k \in DOMAIN hb : (Tot(k[1]) = LB /\ Tot(k[2]) = LA) => hb[k] = Def(k[2], k[1], k[4], k[3])
=============================================================================
