--------------------------------- MODULE Esp ---------------------------------
(***************************************************************************)
(* L4 -- electrostatic potential (C14), gbasis/evals/electrostatic_potential.py. *)
(*                                                                          *)
(*   V(R) = sum_A [d_A >= tau] Z_A / d_A  -  sum_ab P_ab <a| 1/|r-R| |b>     *)
(*                                                                          *)
(* SPECIFICATION of the mask: nucleus A is left out for a point exactly     *)
(* when its distance d_A to the point is below the threshold tau, whatever  *)
(* its charge.  Two as-implemented variants are modelled as named           *)
(* predicates: MaskChargeOverDistance (the tree before its repair: the      *)
(* potential Z/d is compared with 1/tau) and MaskDistance (repaired).       *)
(* Distances, thresholds and charges are small rationals <<n, d>> (d > 0;   *)
(* charges may be negative); TLC enumerates every combination of            *)
(* (d <, =, > tau) x (sign and magnitude of Z) x (tau = 0) x (d = 0).       *)
(*                                                                          *)
(* Size rule: the density matrix is expressed in the basis the caller       *)
(* works in: the typed atomic-orbital basis without a transformation, the   *)
(* ROWS of the transformation matrix with one -- square or rectangular.     *)
(***************************************************************************)
EXTENDS Integers, Sequences, FiniteSets, TLC

CONSTANTS Ds, Taus, Zs, NBasis, NRows

RLess(x, y) == x[1] * y[2] < y[1] * x[2]

MaskSpec(d, tau, Z) == RLess(d, tau)

MaskDistance(d, tau, Z) == RLess(d, tau)

\* external_potential[Z/d > 1/tau] = 0 with IEEE semantics for d = 0 and tau = 0
MaskChargeOverDistance(d, tau, Z) ==
  IF tau[1] = 0 THEN FALSE                                   \* 1/0 = +inf, nothing exceeds it
  ELSE IF d[1] = 0 THEN Z[1] > 0                             \* Z/0 = +-inf
  ELSE RLess(<<tau[2] * d[1], tau[1] * d[2]>>, Z)            \* d/tau < Z  <=>  Z/d > 1/tau  (d, tau > 0)

\* expected size of the density matrix
SizeSpec(nb, rows, withT) == IF withT THEN rows ELSE nb
SizePinned(nb, rows, withT) == nb                            \* compared with the untransformed basis
SizeRepaired(nb, rows, withT) == IF withT THEN rows ELSE nb

VARIABLES d, tau, Z
vars == <<d, tau, Z>>
Init == d \in Ds /\ tau \in Taus /\ Z \in Zs
Next == UNCHANGED vars
Spec == Init /\ [][Next]_vars

MaskOK == MaskDistance(d, tau, Z) = MaskSpec(d, tau, Z)
SizeOK == \A nb \in NBasis, r \in NRows, w \in BOOLEAN : SizeRepaired(nb, r, w) = SizeSpec(nb, r, w)

\* negative controls (ASSUME): the pinned variants differ from the specification on the grid
PinnedMaskDiffers == \E x \in Ds, t \in Taus, z \in Zs : MaskChargeOverDistance(x, t, z) # MaskSpec(x, t, z)
PinnedSizeDiffers == \E nb \in NBasis, r \in NRows : SizePinned(nb, r, TRUE) # SizeSpec(nb, r, TRUE)
=============================================================================
