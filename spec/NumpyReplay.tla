----------------------------- MODULE NumpyReplay -----------------------------
(***************************************************************************)
(* Binding of NumpyOps.tla to real numpy: a machine whose state is one      *)
(* labelled tensor and whose actions are the array operations the assembly  *)
(* code uses.  TLC enumerates every operation sequence up to a depth bound; *)
(* the harness executes each sequence with numpy on a numerically labelled  *)
(* array and compares the result entry by entry with the symbolic tensor    *)
(* of the reached state (evaluated at the same numerical labels).           *)
(***************************************************************************)
EXTENDS NumpyOps

CONSTANTS MaxDepth, MaxSize

VARIABLES t, ops
vars == <<t, ops>>

RECURSIVE Prod(_)
Prod(s) == IF s = <<>> THEN 1 ELSE s[1] * Prod(Tail(s))

Init == /\ t = Tensor(<<2, 3, 2>>, LAMBDA i : Atom(i))
        /\ ops = <<>>

Do(name, args, res) == /\ Prod(res.sh) <= MaxSize
                       /\ t' = res
                       /\ ops' = Append(ops, <<name>> \o args)

Next ==
  /\ Len(ops) < MaxDepth
  /\ \/ \E a, b \in 0..(Rank(t) - 1) : a < b /\ Do("swapaxes", <<a, b>>, SwapAxes(t, a, b))
     \/ Rank(t) >= 2 /\ Do("concatenate_self", <<>>, MergeFirst(t))
     \/ \E ax \in 0..(Rank(t) - 2) : Do("reshape_merge", <<ax>>, MergeAt(t, ax))
     \/ \E ax \in 0..(Rank(t) - 1) :
           \* every application contracts with its OWN matrix (codes shifted by the step number): with one matrix used
           \* twice on the same axis two different summation paths can give the same product of symbols, and a formal sum
           \* kept as a SET would lose the multiplicity (the assembly code never does that: a matrix meets an axis once)
           Do("tensordot", <<ax>>, TensorDot(2, t.sh[ax + 1], LAMBDA r, p : CodeU(r, p) + 1000000 * Len(ops), t, ax))
     \/ \E ax \in 0..(Rank(t) - 2) : Do("normmul", <<ax>>, NormMul(t, 1, ax))
     \/ \E ax \in 0..(Rank(t) - 1) : Do("concatenate_pair", <<ax>>, Concat(<<t, Conj(t)>>, ax))
     \/ Do("transpose_rotate", <<>>, Transpose(t, [n \in 1..Rank(t) |-> n % Rank(t)]))
     \/ Do("conj", <<>>, Conj(t))

Spec == Init /\ [][Next]_vars

\* every operation keeps the tensor well-formed
WellFormed == DOMAIN t.f = Idx(t.sh)
=============================================================================
