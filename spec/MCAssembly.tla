----------------------------- MODULE MCAssembly -----------------------------
(***************************************************************************)
(* Exhaustive model for C09 / C08 / C11: every assignment of cartesian /    *)
(* spherical to the shells of small bases with pairwise distinct block      *)
(* sizes, for the four assembly classes, with and without a rectangular     *)
(* transformation; the as-implemented pipeline must equal the documented    *)
(* layout entry by entry (symbolically).                                    *)
(***************************************************************************)
EXTENDS Assembly

CONSTANTS Family,        \* "one" | "sym" | "asym" | "four"
          MaxShells,     \* number of shells explored: 1..MaxShells
          Fill,          \* "transpose" (tree before the C08 repair) | "conjtranspose"
          Class,         \* "symmetric" | "hermitian": symmetry class of the kernel blocks
          R              \* rows of the rectangular transformation (0: no lincomb run)

VARIABLES cfg, done, ok
vars == <<cfg, done, ok>>

\* abstract shell sizes: pairwise distinct block sizes, every axis >= 2, Lc # Ls
Menu == IF Family = "four"
        THEN << [M |-> 2, Lc |-> 2, Ls |-> 3], [M |-> 2, Lc |-> 3, Ls |-> 2], [M |-> 1, Lc |-> 2, Ls |-> 1] >>
        ELSE << [M |-> 2, Lc |-> 3, Ls |-> 2], [M |-> 3, Lc |-> 2, Ls |-> 4],
                [M |-> 2, Lc |-> 4, Ls |-> 3], [M |-> 2, Lc |-> 2, Ls |-> 5],
                [M |-> 1, Lc |-> 3, Ls |-> 5], [M |-> 3, Lc |-> 4, Ls |-> 2] >>

\* the symbolic four-index array under a transformation has (N^4 x terms) terms per entry, so the
\* lincomb runs of the "four" family use two tiny shells (the application of U does not depend on the
\* block structure, which the runs without U check with the larger menu)
MenuLin4 == << [M |-> 1, Lc |-> 2, Ls |-> 2], [M |-> 1, Lc |-> 1, Ls |-> 1] >>
BasesLin4(n) == {[k \in 1..n |-> [M |-> MenuLin4[k].M, Lc |-> MenuLin4[k].Lc, Ls |-> MenuLin4[k].Ls, typ |-> ty[k]]] :
                   ty \in [1..n -> {"cartesian", "spherical"}]}

Typs == {"cartesian", "spherical"}
Bases(n) == {[k \in 1..n |-> [M |-> Menu[k].M, Lc |-> Menu[k].Lc, Ls |-> Menu[k].Ls, typ |-> ty[k]]] :
               ty \in [1..n -> Typs]}
Shift(B, by) == [k \in 1..Len(B) |-> LET s == Menu[k + by] IN [M |-> s.M, Lc |-> s.Lc, Ls |-> s.Ls, typ |-> B[k].typ]]

Init ==
  /\ done = FALSE /\ ok = TRUE
  /\ \E n \in 1..MaxShells :
       \/ Family \notin {"asym", "four"} /\ \E B \in Bases(n) : \E lin \in {0, R} : cfg = [B |-> B, B2 |-> <<>>, lin |-> lin]
       \/ Family = "four" /\ \E B \in Bases(n) : cfg = [B |-> B, B2 |-> <<>>, lin |-> 0]
       \/ Family = "four" /\ n <= 2 /\ \E B \in BasesLin4(n) : cfg = [B |-> B, B2 |-> <<>>, lin |-> R]
       \/ Family = "asym" /\ \E n2 \in 1..MaxShells : \E B \in Bases(n), B2 \in Bases(n2) : \E lin \in {0, R} :
             cfg = [B |-> B, B2 |-> Shift(B2, n), lin |-> lin]

Verdict ==
  LET B == cfg.B
  IN  CASE Family = "one" ->
             IF cfg.lin = 0 THEN SameTensor(Dispatch1(B), Expected1(B)) /\ SameTensor(Mix1(B), Expected1(B))
             ELSE SameTensor(Lin1(B, R), ExpectedLin1(B, R))
        [] Family = "sym" ->
             IF cfg.lin = 0
             THEN SameTensor(CanonT2(Sym2(B, Fill), Class), CanonT2(Expected2(B, B, 0), Class))
             ELSE SameTensor(CanonT2(LinSym2(B, R, Fill), Class),
                             CanonT2(ExpectedLin2(Expected2(B, B, 0), R, R, 0), Class))
        [] Family = "asym" ->
             IF cfg.lin = 0
             THEN SameTensor(Asym2(B, cfg.B2), Expected2(B, cfg.B2, Len(B)))
             ELSE SameTensor(LinAsym2(B, cfg.B2, R, R + 1),
                             ExpectedLin2(Expected2(B, cfg.B2, Len(B)), R, R + 1, 500000))
        [] Family = "four" ->
             IF cfg.lin = 0 THEN SameTensor(CanonT4(Sym4(B)), CanonT4(Expected4(B)))
             ELSE SameTensor(CanonT4(LinSym4(B, R)), CanonT4(ExpectedLin4(Expected4(B), R)))

Check == ~done /\ done' = TRUE /\ ok' = Verdict /\ UNCHANGED cfg
Next == Check
Spec == Init /\ [][Next]_vars

AssemblyEqLayout == ok
=============================================================================
