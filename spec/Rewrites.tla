------------------------------- MODULE Rewrites -------------------------------
(***************************************************************************)
(* L6 -- transformations of a basis set that do not change the functions    *)
(* it denotes (C11 shell order, C13 contractions), as actions of a state    *)
(* machine, each with its OUTPUT LAW.                                       *)
(*                                                                          *)
(* A shell is [orig |-> id of the original shell, prims |-> sequence of     *)
(* primitive ids (ids of exponents; a split primitive appears twice),       *)
(* cols |-> sequence of columns], a column is [ocol |-> original column,    *)
(* sign |-> 1 | -1, scale |-> <<num, den>> (positive rational the column    *)
(* has been multiplied with), coef |-> sequence of integers, one per        *)
(* primitive of the shell].  The real coefficient is coef * sign * scale *  *)
(* 2^-4; angular momentum, centre and coordinate type stay with `orig`.     *)
(*                                                                          *)
(* DENOTATION of a column: the function  sum over primitive ids e of        *)
(* (sum of coef over the occurrences of e) * g_e .  Every rewrite keeps it  *)
(* (up to the tracked sign and positive scale), which TLC checks in every   *)
(* reachable state; so the NORMALISED contracted functions are the same,    *)
(* and the output law is: the function list (shell, column) of the current  *)
(* basis, read in order, is the list of <<orig, ocol, sign>> -- every array *)
(* the library computes for the rewritten basis must be the original array  *)
(* with its basis indices permuted by that list and multiplied by the       *)
(* signs.                                                                   *)
(***************************************************************************)
EXTENDS Integers, Sequences, SequencesExt, FiniteSets, TLC

CONSTANTS Init0,         \* the original basis: sequence of [K |-> primitives, M |-> columns]
          MaxDepth,
          GenShellPerm, GenContraction      \* which generator families are enabled

VARIABLES basis, depth, last
vars == <<basis, depth, last>>

\* original coefficient of primitive p, column m of original shell k: distinct even integers, never zero
C0(k, p, m) == 2 * (3 * k + 5 * p + 7 * m) * (IF (k + p + m) % 3 = 0 THEN -1 ELSE 1)

Start ==
  [k \in 1..Len(Init0) |->
     [orig |-> k, prims |-> [p \in 1..Init0[k].K |-> p],
      cols |-> [m \in 1..Init0[k].M |->
                  [ocol |-> m, sign |-> 1, scale |-> <<1, 1>>, coef |-> [p \in 1..Init0[k].K |-> C0(k, p, m)]]]]]

Init == basis = Start /\ depth = 0 /\ last = <<"init">>

SwapSeq(s, i, j) == [s EXCEPT ![i] = s[j], ![j] = s[i]]
RemoveAt2(s, i) == SubSeq(s, 1, i - 1) \o SubSeq(s, i + 1, Len(s))
InsertAt2(s, i, x) == SubSeq(s, 1, i - 1) \o <<x>> \o SubSeq(s, i, Len(s))

\* C11: list the shells in another order (a transposition; every permutation is a product of them)
PermuteShells(i, j) ==
  /\ GenShellPerm /\ i < j
  /\ basis' = SwapSeq(basis, i, j)
  /\ last' = <<"permute_shells", i, j>>

\* C13: a generalized shell becomes one single-column shell per column, sharing the primitives
SplitGeneralized(k) ==
  /\ GenContraction /\ Len(basis[k].cols) > 1
  /\ basis' = SubSeq(basis, 1, k - 1)
              \o [m \in 1..Len(basis[k].cols) |-> [basis[k] EXCEPT !.cols = <<basis[k].cols[m]>>]]
              \o SubSeq(basis, k + 1, Len(basis))
  /\ last' = <<"split_generalized", k>>

\* C13: the primitives of a shell are listed in another order
PermutePrims(k, i, j) ==
  /\ GenContraction /\ i < j /\ j <= Len(basis[k].prims)
  /\ basis' = [basis EXCEPT ![k].prims = SwapSeq(@, i, j),
                            ![k].cols = [m \in 1..Len(@) |-> [@[m] EXCEPT !.coef = SwapSeq(@, i, j)]]]
  /\ last' = <<"permute_primitives", k, i, j>>

\* C13: a primitive is split into two with the coefficient shared between them
SplitPrim(k, i) ==
  /\ GenContraction /\ i <= Len(basis[k].prims) /\ Len(basis[k].prims) < 5
  /\ \A m \in 1..Len(basis[k].cols) : basis[k].cols[m].coef[i] % 2 = 0
  /\ basis' = [basis EXCEPT ![k].prims = InsertAt2(@, i, @[i]),
                            ![k].cols = [m \in 1..Len(@) |->
                               [@[m] EXCEPT !.coef = InsertAt2([@ EXCEPT ![i] = @ \div 2], i, @[i] \div 2)]]]
  /\ last' = <<"split_primitive", k, i>>

\* C13: a primitive is split into two copies and every column keeps its WHOLE coefficient on one of them (odd columns on
\* the first copy, even columns on the second): the zero padding with which segmented tables are stored as one
\* generalized shell; with a single column the second copy is a primitive no contraction uses
PadPrim(k, i) ==
  /\ GenContraction /\ i <= Len(basis[k].prims) /\ Len(basis[k].prims) < 5
  /\ basis' = [basis EXCEPT ![k].prims = InsertAt2(@, i, @[i]),
                            ![k].cols = [m \in 1..Len(@) |->
                               [@[m] EXCEPT !.coef = IF m % 2 = 1 THEN InsertAt2(@, i + 1, 0)
                                                                  ELSE InsertAt2([@ EXCEPT ![i] = 0], i + 1, @[i])]]]
  /\ last' = <<"pad_primitive", k, i>>

\* C13: a column is multiplied by a factor (positive: nothing changes; negative: that function changes sign)
Factors == {<<1048576, 1>>, <<-1, 1>>, <<-3, 1048576>>, <<1, 4096>>}
ScaleColumn(k, m, f) ==
  /\ GenContraction /\ m <= Len(basis[k].cols)
  /\ LET c == basis[k].cols[m]
         af == IF f[1] < 0 THEN -f[1] ELSE f[1]
     IN  /\ c.scale[1] <= 500000000 \div af /\ c.scale[2] <= 500000000 \div f[2]      \* stay inside TLC's 32-bit integers
         /\ basis' = [basis EXCEPT ![k].cols[m] =
                        [c EXCEPT !.sign = IF f[1] < 0 THEN -@ ELSE @,
                                  !.scale = <<@[1] * af, @[2] * f[2]>>]]
  /\ last' = <<"scale_column", k, m, f>>

Next ==
  /\ depth < MaxDepth
  /\ depth' = depth + 1
  /\ \/ \E i, j \in 1..Len(basis) : PermuteShells(i, j)
     \/ \E k \in 1..Len(basis) : SplitGeneralized(k)
     \/ \E k \in 1..Len(basis) : \E i, j \in 1..5 : PermutePrims(k, i, j)
     \/ \E k \in 1..Len(basis) : \E i \in 1..5 : SplitPrim(k, i)
     \/ \E k \in 1..Len(basis) : \E i \in 1..5 : PadPrim(k, i)
     \/ \E k \in 1..Len(basis) : \E m \in 1..4 : \E f \in Factors : ScaleColumn(k, m, f)

Spec == Init /\ [][Next]_vars

(***************************************************************************)
(* Properties.                                                              *)
(***************************************************************************)
\* denotation of column m of shell k: primitive id -> summed integer coefficient
Denot(sh, m) ==
  [e \in {sh.prims[p] : p \in 1..Len(sh.prims)} |->
     FoldLeft(LAMBDA acc, p : IF sh.prims[p] = e THEN acc + sh.cols[m].coef[p] ELSE acc, 0, [p \in 1..Len(sh.prims) |-> p])]

DenotationKept ==
  \A k \in 1..Len(basis) : \A m \in 1..Len(basis[k].cols) :
     LET sh == basis[k]
         c == sh.cols[m]
     IN  Denot(sh, m) = [e \in 1..Init0[sh.orig].K |-> C0(sh.orig, e, c.ocol)]

\* the function list is a permutation of the original one: nothing lost, nothing duplicated
FunctionList == FlattenSeq([k \in 1..Len(basis) |-> [m \in 1..Len(basis[k].cols) |-> <<basis[k].orig, basis[k].cols[m].ocol>>]])
OrigList == FlattenSeq([k \in 1..Len(Init0) |-> [m \in 1..Init0[k].M |-> <<k, m>>]])
ListIsPermutation ==
  /\ Len(FunctionList) = Len(OrigList)
  /\ {FunctionList[n] : n \in 1..Len(FunctionList)} = {OrigList[n] : n \in 1..Len(OrigList)}
=============================================================================
