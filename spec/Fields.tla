-------------------------------- MODULE Fields --------------------------------
(***************************************************************************)
(* L4 -- density-derived fields as FORMAL bilinear forms (C06, C15).        *)
(*                                                                          *)
(* With a symmetric one-electron density matrix P every quantity of         *)
(* gbasis/evals/density.py and stress_tensor.py is a linear combination of  *)
(*      g(o1, o2) = sum_ab P_ab  d^o1 phi_a  d^o2 phi_b  =  g(o2, o1)       *)
(* (o1, o2 derivative-order triples; g is                                   *)
(* evaluate_deriv_reduced_density_matrix).  A field is a function from the  *)
(* canonical keys <<o1, o2>>, o1 <= o2, to a coefficient; coefficients are  *)
(* polynomials c00 + c10 alpha + c01 beta + c11 alpha beta with HALF-       *)
(* integer values, stored doubled as <<2c00, 2c10, 2c01, 2c11>> so that TLC *)
(* works in integers.  Differentiation with respect to r_k is formal:       *)
(*      d/dr_k g(o1, o2) = g(o1 + e_k, o2) + g(o1, o2 + e_k).               *)
(*                                                                          *)
(* DEFINITIONS are written from the documented formulas (Leibniz rule,      *)
(* gradient, Laplacian, Hessian, kinetic-energy densities, the stress       *)
(* tensor of the docstring, force = - divergence, Hessian = Jacobian).      *)
(* AS-IMPLEMENTED forms transcribe the loops of the code (the l_x half-     *)
(* range with factor 2, the nine-way Hessian bookkeeping, the expanded      *)
(* force and Hessian formulas with their guarded terms).  TLC checks that   *)
(* they are equal, for every order triple 0..4 and every tensor component.  *)
(***************************************************************************)
EXTENDS Integers, Sequences, SequencesExt, FiniteSets, FiniteSetsExt, TLC

MaxOrd == 4

Tri == (0..12) \X (0..12) \X (0..12)
Z3 == <<0, 0, 0>>
E(k) == [n \in 1..3 |-> IF n = k THEN 1 ELSE 0]
Add3(a, b) == <<a[1] + b[1], a[2] + b[2], a[3] + b[3]>>
Sub3(a, b) == <<a[1] - b[1], a[2] - b[2], a[3] - b[3]>>
Mul3(c, a) == <<c * a[1], c * a[2], c * a[3]>>
LexLE(a, b) == \/ a[1] < b[1]
               \/ a[1] = b[1] /\ (a[2] < b[2] \/ (a[2] = b[2] /\ a[3] <= b[3]))
Key(o1, o2) == IF LexLE(o1, o2) THEN <<o1, o2>> ELSE <<o2, o1>>

\* ---- coefficients: <<2c00, 2c10, 2c01, 2c11>> ------------------------------
C0 == <<0, 0, 0, 0>>
One == <<2, 0, 0, 0>>
Alpha == <<0, 2, 0, 0>>
OneMinusAlpha == <<2, -2, 0, 0>>
OneMinus2Alpha == <<2, -4, 0, 0>>
HalfBeta == <<0, 0, 1, 0>>
CAdd(a, b) == <<a[1] + b[1], a[2] + b[2], a[3] + b[3], a[4] + b[4]>>
CNeg(a) == <<-a[1], -a[2], -a[3], -a[4]>>
CInt(n, a) == <<n * a[1], n * a[2], n * a[3], n * a[4]>>
\* value of a coefficient (doubled) at alpha = pa/qa (beta stays symbolic is not needed: guards are on one parameter)
AtAlpha(c, num, den) == <<c[1] * den + c[2] * num, c[3] * den + c[4] * num>>    \* <<const part, beta part>> times den
AtBeta0(c) == <<c[1], c[2]>>

\* ---- fields: sets of terms, normalised to a function on demand ---------------
\* a field under construction is a sequence of terms <<key, coefficient>>
Term(o1, o2, c) == << <<Key(o1, o2), c>> >>
Plus(f, g) == f \o g
ScaleF(n, f) == [t \in 1..Len(f) |-> <<f[t][1], CInt(n, f[t][2])>>]
NegF(f) == [t \in 1..Len(f) |-> <<f[t][1], CNeg(f[t][2])>>]
MulC(c, f) ==      \* multiply every coefficient by the coefficient polynomial c (only used with integer-coefficient f)
  [t \in 1..Len(f) |-> <<f[t][1], CInt(f[t][2][1] \div 2, c)>>]
D(k, f) == FlattenSeq([t \in 1..Len(f) |->
             << <<Key(Add3(f[t][1][1], E(k)), f[t][1][2]), f[t][2]>>,
                <<Key(f[t][1][1], Add3(f[t][1][2], E(k))), f[t][2]>> >>])
SumF(fs) == FlattenSeq(fs)

\* canonical form: key -> summed coefficient, zero coefficients dropped
Norm(f) ==
  LET keys == {f[t][1] : t \in 1..Len(f)}
      tot(k) == FoldLeft(LAMBDA acc, t : IF f[t][1] = k THEN CAdd(acc, f[t][2]) ELSE acc, C0, [t \in 1..Len(f) |-> t])
  IN  {<<k, tot(k)>> : k \in keys} \ {<<k, C0>> : k \in keys}
Same(f, g) == Norm(f) = Norm(g)

(***************************************************************************)
(* C06 -- density and its derivatives.                                      *)
(***************************************************************************)
Rho == Term(Z3, Z3, One)

RECURSIVE FactI(_)
FactI(n) == IF n <= 1 THEN 1 ELSE n * FactI(n - 1)
Comb(n, k) == FactI(n) \div (FactI(k) * FactI(n - k))

\* sum over a in 0..amax, b in 0..o[2], c in 0..o[3] of T(a, b, c), keeping multiplicities
Sum3(o, amax, T(_, _, _)) ==
  FlattenSeq([a \in 1..(amax + 1) |-> FlattenSeq([b \in 1..(o[2] + 1) |-> FlattenSeq([c \in 1..(o[3] + 1) |->
     T(a - 1, b - 1, c - 1)])])])

\* DEFINITION: Leibniz expansion of d^o rho
DerivDef(o) ==
  Sum3(o, o[1], LAMBDA a, b, c :
         Term(<<a, b, c>>, Sub3(o, <<a, b, c>>), CInt(Comb(o[1], a) * Comb(o[2], b) * Comb(o[3], c), One)))

\* AS IMPLEMENTED (density.py 265-303): l_x only up to half of the total, factor 2 except at the middle
DerivImpl(o) ==
  Sum3(o, o[1] \div 2, LAMBDA a, b, c :
         Term(<<a, b, c>>, Sub3(o, <<a, b, c>>),
              CInt((IF o[1] % 2 = 0 /\ 2 * a = o[1] THEN 1 ELSE 2) * Comb(o[1], a) * Comb(o[2], b) * Comb(o[3], c), One)))

GradDef(k)    == D(k, Rho)
GradImpl(k)   == Term(Z3, E(k), CInt(2, One))                                   \* 2 * sum P phi d_k phi
LapDef        == SumF([k \in 1..3 |-> D(k, D(k, Rho))])
LapImpl       == SumF([k \in 1..3 |-> Plus(Term(Z3, Mul3(2, E(k)), CInt(2, One)), Term(E(k), E(k), CInt(2, One)))])
HessDef(i, j) == D(i, D(j, Rho))
\* density.py 574-614: entries computed for j <= i in [j][i], mirrored at the end
HessImplUpper(j, i) == Plus(Term(Z3, Add3(E(j), E(i)), CInt(2, One)), Term(E(j), E(i), CInt(2, One)))
HessImpl(i, j) == IF j <= i THEN HessImplUpper(j, i) ELSE HessImplUpper(i, j)
TPlusDef      == SumF([k \in 1..3 |-> Term(E(k), E(k), <<1, 0, 0, 0>>)])        \* 1/2 sum_k g(e_k, e_k)
\* general kinetic-energy density t_alpha = t_+ + alpha * Laplacian (alpha is this function's own parameter)
GenKinDef     == Plus(TPlusDef, MulC(Alpha, LapDef))

(***************************************************************************)
(* C15 -- stress tensor, Ehrenfest force, Ehrenfest Hessian.                *)
(***************************************************************************)
\* DEFINITION: first form of the docstring of evaluate_stress_tensor
StressDef(i, j) ==
  SumF(<< MulC(CNeg(<<0, 1, 0, 0>>), Plus(Term(E(i), E(j), One), Term(E(j), E(i), One))),      \* -1/2 alpha ( . + . )
          MulC(<<1, -1, 0, 0>>, Plus(Term(Add3(E(i), E(j)), Z3, One), Term(Z3, Add3(E(i), E(j)), One))),
          IF i = j THEN MulC(CNeg(HalfBeta), LapDef) ELSE <<>> >>)

\* AS IMPLEMENTED (stress_tensor.py 90-124): upper triangle i <= j, mirrored
StressImplUpper(i, j) ==
  SumF(<< MulC(CNeg(Alpha), Term(E(j), E(i), One)),
          MulC(OneMinusAlpha, Term(Add3(E(j), E(i)), Z3, One)),
          IF i = j THEN MulC(CNeg(HalfBeta), LapImpl) ELSE <<>> >>)
StressImpl(i, j) == IF i <= j THEN StressImplUpper(i, j) ELSE StressImplUpper(j, i)

\* DEFINITION: force = minus the divergence of the stress tensor
ForceDef(j) == NegF(SumF([i \in 1..3 |-> D(i, StressDef(i, j))]))

\* AS IMPLEMENTED (203-245) = the expanded formula of the docstring
ForceImpl(j) ==
  SumF([k \in 1..3 |->
     SumF(<< MulC(Alpha, Term(Mul3(2, E(k)), E(j), One)),
             MulC(CNeg(OneMinusAlpha), Term(Add3(Mul3(2, E(k)), E(j)), Z3, One)),
             MulC(CNeg(OneMinus2Alpha), Term(Add3(E(k), E(j)), E(k), One)),
             MulC(HalfBeta, DerivImpl(Add3(Mul3(2, E(k)), E(j)))) >>)])

\* DEFINITION: Hessian = Jacobian of the force, H_jk = d F_j / d r_k (the expanded formula of the docstring)
EHessDef(j, k) == D(k, ForceDef(j))

\* AS IMPLEMENTED (347-413)
EHessImpl(j, k) ==
  SumF([i \in 1..3 |->
     SumF(<< MulC(Alpha, Plus(Term(Add3(Mul3(2, E(i)), E(k)), E(j), One), Term(Mul3(2, E(i)), Add3(E(j), E(k)), One))),
             MulC(CNeg(OneMinusAlpha), Plus(Term(Add3(Add3(Mul3(2, E(i)), E(j)), E(k)), Z3, One),
                                            Term(Add3(Mul3(2, E(i)), E(j)), E(k), One))),
             MulC(CNeg(OneMinus2Alpha), Plus(Term(Add3(Add3(E(i), E(j)), E(k)), E(i), One),
                                             Term(Add3(E(i), E(j)), Add3(E(i), E(k)), One))),
             MulC(HalfBeta, DerivImpl(Add3(Add3(Mul3(2, E(i)), E(j)), E(k)))) >>)])

\* symmetric = True returns (H + H^T) / 2: as doubled coefficients, H[j][k] + H[k][j] with every coefficient halved;
\* stated as 2 * SymHess = H + H^T
EHessSymTwice(j, k) == Plus(EHessImpl(j, k), EHessImpl(k, j))

(***************************************************************************)
(* The guarded terms of the code: `if alpha != g:` skips a term whose       *)
(* coefficient must therefore vanish at alpha = g (beta = 0 likewise).      *)
(***************************************************************************)
Guards == << <<"alpha", 0, 1, Alpha>>, <<"alpha", 1, 1, OneMinusAlpha>>,
             <<"alpha", 1, 2, OneMinus2Alpha>>, <<"beta", 0, 1, HalfBeta>> >>
GuardOK(g) == IF g[1] = "alpha" THEN AtAlpha(g[4], g[2], g[3]) = <<0, 0>>
              ELSE AtBeta0(g[4]) = <<0, 0>>

(***************************************************************************)
(* Threshold rule (density.py 107-110 and 687-690).  Values and thresholds  *)
(* are integers here (the rule only compares).  SPECIFICATION (C06): a      *)
(* negative value is returned as 0 when its magnitude is at most the        *)
(* threshold and raises when it is larger; non-negative values pass.        *)
(* `doubled` models evaluate_posdef_kinetic_energy_density, which holds     *)
(* twice the returned quantity when it applies the test.                    *)
(***************************************************************************)
DecisionSpec(v2, thr2) ==        \* v2, thr2: twice the returned value / threshold (integers)
  IF v2 < 0 /\ -v2 > thr2 THEN "raise" ELSE IF v2 < 0 THEN "zero" ELSE "value"
DecisionDensity(v2, thr2) == DecisionSpec(v2, thr2)                                  \* tests the returned quantity
DecisionTPlusBeforeHalf(v2, thr2) ==                                                 \* tests 2*t_+ against thr
  IF 2 * v2 < 0 /\ -(2 * v2) > thr2 THEN "raise" ELSE IF v2 < 0 THEN "zero" ELSE "value"
DecisionTPlusAfterHalf(v2, thr2) == DecisionSpec(v2, thr2)
=============================================================================
