-------------------------------- MODULE Frames --------------------------------
(***************************************************************************)
(* L6 -- rigid motions that map the coordinate axes onto themselves (C12):  *)
(* the 48 signed axis permutations (the group O_h).  An element is          *)
(*   g = <<perm, sgn>>:   (g r)[k] = sgn[k] * r[perm[k]]                    *)
(* i.e. new coordinate k is +-(old coordinate perm[k]).                     *)
(*                                                                          *)
(* OUTPUT LAW on Cartesian components.  Moving everything with g turns the  *)
(* Cartesian function with component triple a = (a_x, a_y, a_z) of the      *)
(* moved shell into  sign * (function with triple b of the original shell), *)
(*      b[perm[k]] = a[k],     sign = prod_k sgn[k]^a[k],                   *)
(* because (x'_k)^a[k] = (sgn[k] x_perm[k])^a[k].  CompMap(g, l) lists, for *)
(* every component position of the documented order, the position of b and  *)
(* the sign.  Vectors transform as v'[k] = sgn[k] v[perm[k]].               *)
(* TLC enumerates the group (closure under composition, 48 elements) and    *)
(* checks that CompMap is a homomorphism: CompMap(g . h) = CompMap(g) o     *)
(* CompMap(h) with signs multiplied, for every pair and every l <= LMax.    *)
(***************************************************************************)
EXTENDS Integers, Sequences, FiniteSets, Layout, TLC

CONSTANT LMax

Perms3 == {p \in [1..3 -> 1..3] : {p[1], p[2], p[3]} = {1, 2, 3}}
Signs3 == [1..3 -> {1, -1}]
Group == {<<p, s>> : p \in Perms3, s \in Signs3}

\* (g . h) r = g (h r):  (h r)[j] = sh[j] r[ph[j]];  (g (h r))[k] = sg[k] (h r)[pg[k]] = sg[k] sh[pg[k]] r[ph[pg[k]]]
Compose(g, h) == << [k \in 1..3 |-> h[1][g[1][k]]], [k \in 1..3 |-> g[2][k] * h[2][g[1][k]]] >>
Identity == << [k \in 1..3 |-> k], [k \in 1..3 |-> 1] >>

PowSign(s, n) == IF n % 2 = 0 THEN 1 ELSE s

IndexOf(seq, x) == CHOOSE n \in 1..Len(seq) : seq[n] = x

\* position c of the moved shell  ->  <<position in the original shell, sign>>
CompMap(g, l) ==
  LET comps == CartComps(l)
  IN  [c \in 1..Len(comps) |->
        LET a == comps[c]
            b == [j \in 1..3 |-> a[CHOOSE k \in 1..3 : g[1][k] = j]]
        IN  <<IndexOf(comps, <<b[1], b[2], b[3]>>),
              PowSign(g[2][1], a[1]) * PowSign(g[2][2], a[2]) * PowSign(g[2][3], a[3])>>]

\* composition of component maps: first h (original -> h-moved), then g
MapCompose(mg, mh) == [c \in 1..Len(mg) |-> <<mh[mg[c][1]][1], mg[c][2] * mh[mg[c][1]][2]>>]

VARIABLES g, h, maps          \* maps: CompMap(g, l) for l = 0..LMax, read by the replay harness
vars == <<g, h, maps>>
Init == /\ g \in Group /\ h \in Group
        /\ maps = [l \in 1..(LMax + 1) |-> CompMap(g, l - 1)]
Next == UNCHANGED vars
Spec == Init /\ [][Next]_vars

Closed       == Compose(g, h) \in Group
Homomorphism == \A l \in 0..LMax : CompMap(Compose(g, h), l) = MapCompose(CompMap(g, l), CompMap(h, l))
IdentityLaw  == g = Identity => \A l \in 0..LMax : CompMap(g, l) = [c \in 1..NCart(l) |-> <<c, 1>>]
Bijective    == \A l \in 0..LMax : {CompMap(g, l)[c][1] : c \in 1..NCart(l)} = 1..NCart(l)
GroupSize    == Cardinality(Group) = 48
=============================================================================
