------------------------------ MODULE OSMoment ------------------------------
(***************************************************************************)
(* L2 -- the Obara-Saika table of gbasis/integrals/_moment_int.py           *)
(* (_compute_multipole_moment_integrals_intermediate, lines 54-140) AS      *)
(* IMPLEMENTED, one action per statement group of the code, for one axis    *)
(* of one primitive pair.  The table is the numpy array `integrals`         *)
(* [order k, b index j, a index i]; it starts as zeros and every slot is    *)
(* written once.  The machine is checked against the L1 definition          *)
(* Gauss!Moment1D: every entry a step writes must equal the closed form.    *)
(***************************************************************************)
EXTENDS Gauss, TLC

CONSTANTS Grid,          \* set of axis parameter records (already in F_P)
          Shapes         \* set of <<LA, LB, KM>> table shapes to run

VARIABLES q, shape, tab, pc, fresh

vars == <<q, shape, tab, pc, fresh>>

LA == shape[1]
LB == shape[2]
KM == shape[3]

Idx == {<<k, j, i>> : k \in 0..KM, j \in 0..LB, i \in 0..LA}

T(k, j, i) == tab[<<k, j, i>>]

Write(S, val(_)) ==                 \* assign val(idx) to every idx in S
  /\ tab' = [x \in DOMAIN tab |-> IF x \in S THEN val(x) ELSE tab[x]]
  /\ fresh' = S

Init ==
  /\ q \in Grid
  /\ shape \in Shapes
  /\ tab = [x \in {<<k, j, i>> : k \in 0..shape[3], j \in 0..shape[2], i \in 0..shape[1]} |-> 0]
  /\ pc = <<"base", 0>>
  /\ fresh = {}

i2p == q.i2p

\* line 79: integrals[0, 0, 0] = sqrt(pi/p) exp(-mu AB^2)   (reduced: 1)
Base ==
  /\ pc = <<"base", 0>>
  /\ Write({<<0, 0, 0>>}, LAMBDA x : 1)
  /\ pc' = <<"a1", 0>>

\* line 85: integrals[0, 0, 1:2] = rel_coord_a * integrals[0, 0, 0:1]
A1 ==
  /\ pc = <<"a1", 0>>
  /\ Write({<<0, 0, 1>>} \cap Idx, LAMBDA x : Mul(PA(q), T(0, 0, 0)))
  /\ pc' = <<"a", 1>>

\* lines 86-89: for i in range(1, angmom_a_max)
ALoop ==
  /\ pc[1] = "a"
  /\ LET i == pc[2] IN
     IF i < LA
     THEN /\ Write({<<0, 0, i + 1>>},
                   LAMBDA x : Add(Mul(PA(q), T(0, 0, i)),
                                  Mul(Mul(FromInt(i), T(0, 0, i - 1)), i2p)))
          /\ pc' = <<"a", i + 1>>
     ELSE /\ UNCHANGED <<tab>> /\ fresh' = {} /\ pc' = <<"b1", 0>>

\* lines 94-97: the j = 1 row
B1 ==
  /\ pc = <<"b1", 0>>
  /\ Write({x \in Idx : x[1] = 0 /\ x[2] = 1},
           LAMBDA x : IF x[3] = 0 THEN Mul(PB(q), T(0, 0, 0))
                      ELSE Add(Mul(PB(q), T(0, 0, x[3])),
                               Mul(Mul(FromInt(x[3]), T(0, 0, x[3] - 1)), i2p)))
  /\ pc' = <<"b", 1>>

\* lines 98-105: for j in range(1, angmom_b_max)
BLoop ==
  /\ pc[1] = "b"
  /\ LET j == pc[2] IN
     IF j < LB
     THEN /\ Write({x \in Idx : x[1] = 0 /\ x[2] = j + 1},
                   LAMBDA x :
                     IF x[3] = 0
                     THEN Add(Mul(PB(q), T(0, j, 0)),
                              Mul(Mul(FromInt(j), T(0, j - 1, 0)), i2p))
                     ELSE Add(Mul(PB(q), T(0, j, x[3])),
                              Mul(Add(Mul(FromInt(x[3]), T(0, j, x[3] - 1)),
                                      Mul(FromInt(j), T(0, j - 1, x[3]))), i2p)))
          /\ pc' = <<"b", j + 1>>
     ELSE /\ UNCHANGED <<tab>> /\ fresh' = {} /\ pc' = <<"k1", 0>>

\* one row of the moment recursion, shared by lines 111-121 (k = 0 -> 1, no
\* k-1 term) and lines 122-138 (general k)
KRowVal(k, x) ==
    LET j == x[2]
        i == x[3]
    IN  Add(Mul(PC(q), T(k, j, i)),
            Mul(Add(Add(IF i >= 1 THEN Mul(FromInt(i), T(k, j, i - 1)) ELSE 0,
                        IF j >= 1 THEN Mul(FromInt(j), T(k, j - 1, i)) ELSE 0),
                    IF k >= 1 THEN Mul(FromInt(k), T(k - 1, j, i)) ELSE 0), i2p))

K1 ==
  /\ pc = <<"k1", 0>>
  /\ Write({x \in Idx : x[1] = 1}, LAMBDA x : KRowVal(0, x))
  /\ pc' = <<"k", 1>>

KLoop ==
  /\ pc[1] = "k"
  /\ LET k == pc[2] IN
     IF k < KM
     THEN /\ Write({x \in Idx : x[1] = k + 1}, LAMBDA x : KRowVal(k, x))
          /\ pc' = <<"k", k + 1>>
     ELSE /\ UNCHANGED <<tab>> /\ fresh' = {} /\ pc' = <<"done", 0>>

Next == (Base \/ A1 \/ ALoop \/ B1 \/ BLoop \/ K1 \/ KLoop) /\ UNCHANGED <<q, shape>>

Spec == Init /\ [][Next]_vars

(***************************************************************************)
(* Properties.                                                              *)
(***************************************************************************)
\* every entry written by the last step equals the L1 closed form
FreshEqDef == \A x \in fresh : tab[x] = Moment1D(q, x[3], x[2], x[1])

\* at the end the whole table has been written and equals the definition
DoneComplete == pc[1] = "done" => \A x \in Idx : tab[x] = Moment1D(q, x[3], x[2], x[1])

\* the table-organised closed form used by the replay specifications is the definition
TableFormIsDef == pc[1] = "a1" => TableIsDef(q, LA, LB, KM)   \* not on initial states: TLC checks those in one thread

\* the table is write-once: a step never changes an entry that already holds
\* its final value to something else (action property)
WriteOnce == [][\A x \in DOMAIN tab : (tab[x] # 0 /\ x \notin fresh') => tab'[x] = tab[x]]_vars
=============================================================================
