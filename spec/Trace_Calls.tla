----------------------------- MODULE Trace_Calls -----------------------------
(***************************************************************************)
(* Code -> specification for histories the harness does not drive: the      *)
(* repository's own test suite run under a recorder (harness/gbv/recorder)  *)
(* becomes one recorded history per test.  An event is one OUTERMOST call   *)
(* of a public function:                                                    *)
(*   [f, args |-> <<<<object, value id before, value id after>>, ...>>,     *)
(*    errpre, errpost, res]                                                 *)
(* (every array, list, tuple and shell reachable from the arguments is an   *)
(* object; value ids are bitwise content identities; res identifies the     *)
(* returned array up to 1e-12 or the exception class).  The objects of a    *)
(* test are not known in advance and the test code may change them between  *)
(* calls, so the specification of a step is the part of Session!Call that   *)
(* does not depend on the object universe:                                  *)
(*   purity        every argument object has the same value after as before *)
(*   error state   numpy's error settings after = before                    *)
(*   determinism   Remember(<<f, argument values>>, res): equal requests,   *)
(*                 equal answers, within the history of the test            *)
(* A history is rejected at the first event that is not such a step.        *)
(***************************************************************************)
EXTENDS Integers, Sequences, FiniteSets, TLC

CONSTANT Traces

VARIABLES tid, l, memo
vars == <<tid, l, memo>>

Ev == Traces[tid][l]
More == l <= Len(Traces[tid])

Init == tid \in 1..Len(Traces) /\ l = 1 /\ memo = <<>>

Remember(k, r) == /\ k \in DOMAIN memo => r = memo[k]
                  /\ memo' = IF k \in DOMAIN memo THEN memo ELSE memo @@ (k :> r)

Pure(e)     == \A i \in 1..Len(e.args) : e.args[i][2] = e.args[i][3]
ErrKept(e)  == e.errpre = e.errpost
KeyOf(e)    == <<e.f, [i \in 1..Len(e.args) |-> e.args[i][2]]>>

Call ==
  /\ More
  /\ Pure(Ev) /\ ErrKept(Ev)
  /\ Remember(KeyOf(Ev), Ev.res)
  /\ l' = l + 1 /\ UNCHANGED tid

Next == Call
Spec == Init /\ [][Next]_vars

NotStuck == More => ENABLED Next
=============================================================================
