------------------------------- MODULE Exact -------------------------------
(***************************************************************************)
(* L0 -- exact arithmetic for TLC.                                          *)
(*                                                                          *)
(* TLC has 32-bit integers and no rationals or reals.  Every rational       *)
(* quantity of the specification is therefore represented by its residue    *)
(* in the prime field F_P (P < 46340, so that products stay below 2^31).    *)
(* An identity between rational expressions that holds over Q holds in F_P  *)
(* for every P that divides none of the denominators, so a check in F_P     *)
(* can never raise a false alarm; a difference over Q survives reduction    *)
(* modulo a random 15-bit prime with probability 1 - 1/P, and the driver    *)
(* runs every model with at least two independent primes.                   *)
(*                                                                          *)
(* Inputs are dyadic rationals <<mantissa, binary exponent>> (every float   *)
(* with a short mantissa is one of those, bit for bit) or small rationals   *)
(* <<num, den>>.                                                            *)
(***************************************************************************)
EXTENDS Integers, Sequences, SequencesExt

CONSTANT P                      \* the prime modulus of this run

ASSUME PIsSmallPrime == P \in 1000..46337

Max2(a, b) == IF a >= b THEN a ELSE b
Min2(a, b) == IF a <= b THEN a ELSE b

FromInt(n) == ((n % P) + P) % P
Add(x, y)  == (x + y) % P
Sub(x, y)  == (x - y + P) % P
Neg(x)     == (P - x) % P
Mul(x, y)  == (x * y) % P

RECURSIVE PowM(_, _)
PowM(x, n) == IF n = 0 THEN 1
              ELSE IF n % 2 = 0 THEN LET h == PowM(x, n \div 2) IN Mul(h, h)
              ELSE Mul(x, PowM(x, n - 1))

Inv(x)     == PowM(x, P - 2)    \* Fermat; the driver guarantees x # 0
Div(x, y)  == Mul(x, Inv(y))

FromDyadic(d) == IF d[2] >= 0 THEN Mul(FromInt(d[1]), PowM(2, d[2]))
                 ELSE Div(FromInt(d[1]), PowM(2, -d[2]))
FromRat(q)    == Div(FromInt(q[1]), FromInt(q[2]))

SumSeq(s)  == FoldLeft(Add, 0, s)
ProdSeq(s) == FoldLeft(Mul, 1, s)

(***************************************************************************)
(* Small combinatorial tables, built once by iteration.  TLC evaluates a    *)
(* zero-arity constant definition once and caches it ONLY IF its body       *)
(* applies no user-defined operator with parameters (measured: 2 ms per     *)
(* reference otherwise), so the arithmetic is written inline here; and a    *)
(* naively recursive definition of a table entry would be exponential.      *)
(***************************************************************************)
MaxN == 40

\* PascalRows[n+1][k+1] = C(n, k) in F_P
PascalRows ==
  LET Step(rows, n) ==
        LET prev == rows[Len(rows)]
        IN  Append(rows, [k \in 1..(n + 1) |->
                            IF k = 1 \/ k = n + 1 THEN 1
                            ELSE (prev[k - 1] + prev[k]) % P])
  IN  FoldLeft(Step, << <<1>> >>, [n \in 1..MaxN |-> n])

Binom(n, k) == IF k < 0 \/ k > n THEN 0 ELSE PascalRows[n + 1][k + 1]

\* DFTable[n+1] = (n-1)!!  (with (-1)!! = 0!! = 1) in F_P
DFTable ==
  LET Step(t, n) == Append(t, IF n <= 1 THEN 1 ELSE (((n - 1) % P) * t[n - 1]) % P)
  IN  FoldLeft(Step, <<1>>, [n \in 1..(2 * MaxN) |-> n])

DFm1(n) == DFTable[n + 1]        \* (n-1)!!

FactTable ==
  LET Step(t, n) == Append(t, ((n % P) * t[n]) % P)
  IN  FoldLeft(Step, <<1>>, [n \in 1..(2 * MaxN) |-> n])

Fact(n) == FactTable[n + 1]

(***************************************************************************)
(* Memo(f): TLC evaluates a function expression [x \in S |-> e] lazily and  *)
(* re-evaluates e at EVERY application; comparing the value with itself      *)
(* forces it into an explicit table once (measured: 100 us -> 0 per          *)
(* application).  Semantically Memo is the identity.                         *)
(***************************************************************************)
Memo(f) == IF f = f THEN f ELSE f

(***************************************************************************)
(* Polynomials in one variable over F_P, as sequences <<c0, c1, ...>>.      *)
(***************************************************************************)
PCoef(p, n) == IF n + 1 <= Len(p) THEN p[n + 1] ELSE 0
PConst(c)   == <<c>>
PAdd(p, q)  == Memo([n \in 1..Max2(Len(p), Len(q)) |-> Add(PCoef(p, n - 1), PCoef(q, n - 1))])
PSub(p, q)  == Memo([n \in 1..Max2(Len(p), Len(q)) |-> Sub(PCoef(p, n - 1), PCoef(q, n - 1))])
PScale(c, p) == Memo([n \in 1..Len(p) |-> Mul(c, p[n])])
PMul(p, q)  == Memo([n \in 1..(Len(p) + Len(q) - 1) |->
                  LET lo == Max2(1, n + 1 - Len(q))
                      hi == Min2(n, Len(p))
                  IN  SumSeq([t \in 1..(hi - lo + 1) |-> Mul(p[lo + t - 1], q[n - lo - t + 2])])])
PProd(ps)   == FoldLeft(PMul, <<1>>, ps)
\* (t + c)^n
PPowLin(c, n) == Memo([k \in 1..(n + 1) |-> Mul(Binom(n, k - 1), PowM(c, n - k + 1))])
\* p^n
RECURSIVE PPow(_, _)
PPow(p, n)  == IF n = 0 THEN <<1>> ELSE PMul(p, PPow(p, n - 1))
\* strip trailing zeros so that equal polynomials are equal sequences
RECURSIVE PTrim(_)
PTrim(p)    == IF Len(p) > 1 /\ p[Len(p)] = 0 THEN PTrim(SubSeq(p, 1, Len(p) - 1)) ELSE p
PEq(p, q)   == PTrim(p) = PTrim(q)
PEval(p, x) == FoldLeft(LAMBDA acc, k : Add(Mul(acc, x), p[Len(p) + 1 - k]), 0,
                        [k \in 1..Len(p) |-> k])
\* sum_n p[n] * w[n]  (w at least as long as p)
PDot(p, w)  == SumSeq([n \in 1..Len(p) |-> Mul(p[n], w[n])])
=============================================================================
