---------------------------- MODULE MCBasisFile ----------------------------
(* Exhaustive model for C18: every small abstract file x layout x format.   *)
EXTENDS BasisFile

CONSTANTS MaxElems, MaxShells, Variant      \* Variant: "repaired" | "pinned"

VARIABLES f, fmt, lines, cols
vars == <<f, fmt, lines, cols>>

Menu == { [ls |-> <<0>>, K |-> 1, M |-> 1], [ls |-> <<0>>, K |-> 2, M |-> 2],
          [ls |-> <<0, 1>>, K |-> 2, M |-> 1], [ls |-> <<2>>, K |-> 1, M |-> 2] }
Syms == <<"H", "He">>
Pres == { <<>>, <<"comment">>, <<"blank">>, <<"keyword">>, <<"comment", "comment">>, <<"keyword", "comment">>,
          <<"blank", "blank">>, <<"comment", "blank">>, <<"comment", "comment", "blank">>,
          <<"comment", "keyword", "comment">>, <<"blank", "blank", "blank">>, <<"comment", "blank", "keyword">> }

ShellSeqs == UNION {[1..n -> Menu] : n \in 1..MaxShells}
Files == { [pre |-> p, comm |-> c, tail |-> t,
            elems |-> [e \in 1..n |-> [sym |-> Syms[e], shells |-> sh[e]]]] :
             p \in Pres, c \in BOOLEAN, t \in BOOLEAN, n \in 1..MaxElems, sh \in [1..MaxElems -> ShellSeqs] }

Init == /\ f \in Files
        /\ fmt \in {"nwchem", "gbs"}
        /\ lines = Render(f, fmt)
        /\ cols = Columns(f)
Next == UNCHANGED vars
Spec == Init /\ [][Next]_vars

Parse(l, m) == IF Variant = "pinned" THEN ParsePinned(l, m) ELSE ParseRepaired(l, m)
RoundTripOK == Parse(lines, fmt) = cols
=============================================================================
