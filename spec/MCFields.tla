------------------------------ MODULE MCFields ------------------------------
(***************************************************************************)
(* Exhaustive model for C06 / C15: one initial state per obligation; the    *)
(* action evaluates it (in the worker threads) and, for the quantities the  *)
(* harness needs as an oracle, writes the DEFINITION as a coefficient table *)
(* [o1, o2, 2c00, 2c10, 2c01, 2c11] for the replay into gbasis.             *)
(***************************************************************************)
EXTENDS Fields, Json, IOUtils

VARIABLES ob, done, ok
vars == <<ob, done, ok>>

OutDir == IOEnv.GBV_OUT

Orders == {<<a, b, c>> : a \in 0..MaxOrd, b \in 0..MaxOrd, c \in 0..MaxOrd}

Obligations ==
  {<<"deriv", o>> : o \in Orders} \cup
  {<<"grad", <<k>> >> : k \in 1..3} \cup {<<"lap", <<>> >>, <<"hesstrace", <<>> >>, <<"tplus", <<>> >>, <<"genkin", <<>> >>} \cup
  {<<"hess", <<i, j>> >> : i \in 1..3, j \in 1..3} \cup
  {<<"stress", <<i, j>> >> : i \in 1..3, j \in 1..3} \cup
  {<<"force", <<j>> >> : j \in 1..3} \cup
  {<<"ehess", <<j, k>> >> : j \in 1..3, k \in 1..3} \cup
  {<<"guard", <<n>> >> : n \in 1..Len(Guards)} \cup
  {<<"threshold", <<v, t>> >> : v \in (-6)..3, t \in 0..5}

Table(f) == SetToSeq({<<x[1][1], x[1][2], x[2]>> : x \in Norm(f)})
Emit(name, f) == JsonSerialize(OutDir \o "/field_" \o name \o ".json", [name |-> name, terms |-> Table(f)])
Nm(kind, args) == kind \o FoldLeft(LAMBDA acc, x : acc \o "_" \o ToString(x), "", args)

Verdict(kind, a) ==
  CASE kind = "deriv"  -> Same(DerivImpl(a), DerivDef(a)) /\ Emit(Nm("deriv", a), DerivDef(a))
    [] kind = "grad"   -> Same(GradImpl(a[1]), GradDef(a[1])) /\ Emit(Nm("grad", a), GradDef(a[1]))
    [] kind = "lap"    -> Same(LapImpl, LapDef) /\ Emit("lap", LapDef)
    [] kind = "tplus"  -> Emit("tplus", TPlusDef)
    [] kind = "genkin" -> Emit("genkin", GenKinDef)
    [] kind = "hess"   -> /\ Same(HessImpl(a[1], a[2]), HessDef(a[1], a[2]))
                          /\ Same(HessDef(a[1], a[2]), HessDef(a[2], a[1]))               \* symmetric
                          /\ Emit(Nm("hess", a), HessDef(a[1], a[2]))
    [] kind = "hesstrace" -> Same(SumF([k \in 1..3 |-> HessDef(k, k)]), LapDef)            \* trace = Laplacian
    [] kind = "stress" -> /\ Same(StressImpl(a[1], a[2]), StressDef(a[1], a[2]))
                          /\ Same(StressDef(a[1], a[2]), StressDef(a[2], a[1]))            \* symmetric
                          /\ Emit(Nm("stress", a), StressDef(a[1], a[2]))
    [] kind = "force"  -> Same(ForceImpl(a[1]), ForceDef(a[1])) /\ Emit(Nm("force", a), ForceDef(a[1]))
    [] kind = "ehess"  -> /\ Same(EHessImpl(a[1], a[2]), EHessDef(a[1], a[2]))
                          /\ Same(EHessSymTwice(a[1], a[2]), Plus(EHessDef(a[1], a[2]), EHessDef(a[2], a[1])))
                          /\ Emit(Nm("ehess", a), EHessDef(a[1], a[2]))
    [] kind = "guard"  -> GuardOK(Guards[a[1]])
    [] kind = "threshold" -> /\ DecisionDensity(a[1], a[2]) = DecisionSpec(a[1], a[2])
                             /\ DecisionTPlusAfterHalf(a[1], a[2]) = DecisionSpec(a[1], a[2])

Init == ob \in Obligations /\ done = FALSE /\ ok = TRUE
Check == ~done /\ done' = TRUE /\ ok' = Verdict(ob[1], ob[2]) /\ UNCHANGED ob
Next == Check
Spec == Init /\ [][Next]_vars

AllHold == ok

\* negative control: the threshold test applied before the factor 1/2 (the tree before its repair)
\* disagrees with the specified rule somewhere on the grid
PinnedTPlusRuleDiffers ==
  \E v \in (-6)..3, t \in 0..5 : DecisionTPlusBeforeHalf(v, t) # DecisionSpec(v, t)
=============================================================================
