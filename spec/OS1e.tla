--------------------------------- MODULE OS1e ---------------------------------
(***************************************************************************)
(* L2 -- gbasis/integrals/_one_elec_int.py (_compute_one_elec_integrals,    *)
(* lines 78-254) AS IMPLEMENTED for one primitive pair and one point        *)
(* charge: the Obara-Saika vertical recursion on the first centre over the  *)
(* auxiliary index m, then the horizontal transfer to the second centre.    *)
(*                                                                          *)
(* An integral with auxiliary index m is a linear combination of the Boys   *)
(* functions F_m(T), F_(m+1)(T), ...; TLC cannot evaluate F, so a table     *)
(* entry is the VECTOR of its coefficients over the basis F_0, F_1, ... --  *)
(* a polynomial in a formal variable f (f^j stands for F_j), over F_P.      *)
(* The prefactor (2 pi / p) K_AB is divided out.  The base of the recursion *)
(* is then  V^(m)(000|000) = f^m.                                           *)
(*                                                                          *)
(* DEFINITION side (Rys.tla): with the per-axis Rys polynomials I_x I_y I_z *)
(* in s = t^2,  (a|1/r_C|b)^(m) = sum_n [s^n](I_x I_y I_z) F_(n+m), i.e.    *)
(* the same polynomial with s read as f, times f^m.  TLC checks that every  *)
(* entry a step writes INSIDE THE MEANINGFUL REGION equals it.  As in the   *)
(* code, the tables are numpy zeros of size m_max in every index and the    *)
(* recursion also writes entries that depend on slots never filled (large m *)
(* and large a together); those are outside the region m + |a| <= m_max - 1 *)
(* and are cropped or ignored by the code; the machine reproduces them and  *)
(* the invariant says which ones count.                                     *)
(***************************************************************************)
EXTENDS Rys, TLC

CONSTANTS Slip,       \* "none", or "coef": a seeded slip (a + 1 for a in the z pass) used as a negative control
          Grid3,      \* set of triples <<qx, qy, qz>> of axis records (Gauss!Derive, field C = charge position)
          Shapes      \* set of <<la, lb>> with la >= lb (the code swaps the shells otherwise)

VARIABLES q, shape, vert, hor, pc, fresh
vars == <<q, shape, vert, hor, pc, fresh>>

LA == shape[1]
LB == shape[2]
MM == LA + LB + 1                      \* m_max

Ix == 0..(MM - 1)
VKeys == {<<m, ax, ay, az>> : m \in Ix, ax \in Ix, ay \in Ix, az \in Ix}
HKeys == {<<bx, by, bz, ax, ay, az>> : bx \in 0..LB, by \in 0..LB, bz \in 0..LB, ax \in Ix, ay \in Ix, az \in Ix}

PZ == <<0>>
FPow(m) == [n \in 1..(m + 1) |-> IF n = m + 1 THEN 1 ELSE 0]       \* f^m
PAq(x) == q[x].pa
PCq(x) == q[x].pc
ABq(x) == Sub(q[x].A, q[x].B)
I2P == q[1].i2p

Init ==
  /\ q \in Grid3 /\ shape \in Shapes
  /\ vert = [k \in {<<m, ax, ay, az>> : m \in 0..(shape[1] + shape[2]), ax \in 0..(shape[1] + shape[2]),
                                         ay \in 0..(shape[1] + shape[2]), az \in 0..(shape[1] + shape[2])} |-> PZ]
  /\ hor = <<>>
  /\ pc = <<"base", 0>>
  /\ fresh = {}

V(m, ax, ay, az) == vert[<<m, ax, ay, az>>]

WriteV(S, val(_)) ==
  /\ vert' = [k \in DOMAIN vert |-> IF k \in S THEN val(k) ELSE vert[k]]
  /\ fresh' = S
  /\ UNCHANGED hor

\* lines 117-124
Base ==
  /\ pc = <<"base", 0>>
  /\ WriteV({k \in VKeys : k[2] = 0 /\ k[3] = 0 /\ k[4] = 0}, LAMBDA k : FPow(k[1]))
  /\ pc' = <<"vert", 1, 0>>

\* one vertical step along axis x (1, 2, 3), raising the index from a to a + 1 (lines 127-167).
\* With k the target key, Dn(k, x, d) is the key with index x lowered by d and the same m, Up the same with m + 1.
Lower(k, x, d, dm) == [k EXCEPT ![1] = @ + dm, ![x + 1] = @ - d]

VStepVal(k, x) ==
  LET a == k[x + 1] - 1
      t1 == PScale(PAq(x), vert[Lower(k, x, 1, 0)])
      t2 == PScale(PCq(x), vert[Lower(k, x, 1, 1)])
      t3 == IF a >= 1
            THEN PScale(Mul(FromInt(IF Slip = "coef" /\ x = 3 THEN a + 1 ELSE a), I2P),
                        PSub(vert[Lower(k, x, 2, 0)], vert[Lower(k, x, 2, 1)]))
            ELSE PZ
  IN  PTrim(PAdd(PSub(t1, t2), t3))

\* targets of the step "axis x, index a -> a + 1": m in 0..MM-2 ([:-1]); earlier axes free, later axes 0
VTargets(x, a) ==
  {k \in VKeys : /\ k[1] <= MM - 2
                 /\ k[x + 1] = a + 1
                 /\ \A y \in 1..3 : y > x => k[y + 1] = 0}

Vertical ==
  /\ pc[1] = "vert"
  /\ LET x == pc[2]
         a == pc[3]
     IN  IF a <= MM - 2
         THEN /\ WriteV(VTargets(x, a), LAMBDA k : VStepVal(k, x))
              /\ pc' = <<"vert", x, a + 1>>
         ELSE /\ UNCHANGED <<vert, hor>> /\ fresh' = {}
              /\ pc' = IF x < 3 THEN <<"vert", x + 1, 0>> ELSE <<"copy", 0>>

\* lines 170-206: m = 0 is kept (contraction is the identity for one primitive) and becomes b = (0,0,0)
Copy ==
  /\ pc = <<"copy", 0>>
  /\ hor' = [k \in HKeys |-> IF k[1] = 0 /\ k[2] = 0 /\ k[3] = 0 THEN V(0, k[4], k[5], k[6]) ELSE PZ]
  /\ fresh' = {}
  /\ UNCHANGED vert
  /\ pc' = <<"hor", 1, 0>>

\* lines 209-230: (a | b + 1_x) = (a + 1_x | b) + (A - B)_x (a | b), for a_x in [: -1]
HStepVal(k, x) ==
  LET src == [k EXCEPT ![x] = @ - 1]
  IN  PTrim(PAdd(hor[[src EXCEPT ![x + 3] = @ + 1]], PScale(ABq(x), hor[src])))

HTargets(x, b) ==
  {k \in HKeys : /\ k[x] = b + 1
                 /\ k[x + 3] <= MM - 2
                 /\ \A y \in 1..3 : y > x => k[y] = 0}

Horizontal ==
  /\ pc[1] = "hor"
  /\ LET x == pc[2]
         b == pc[3]
     IN  IF b <= LB - 1
         THEN /\ hor' = [k \in DOMAIN hor |-> IF k \in HTargets(x, b) THEN HStepVal(k, x) ELSE hor[k]]
              /\ fresh' = HTargets(x, b)
              /\ pc' = <<"hor", x, b + 1>>
         ELSE /\ UNCHANGED hor /\ fresh' = {}
              /\ pc' = IF x < 3 THEN <<"hor", x + 1, 0>> ELSE <<"done", 0>>
  /\ UNCHANGED vert

Next == (Base \/ Vertical \/ Copy \/ Horizontal) /\ UNCHANGED <<q, shape>>
Spec == Init /\ [][Next]_vars

(***************************************************************************)
(* Definition and invariants.                                               *)
(***************************************************************************)
RysTabs == [x \in 1..3 |-> Rys1DTable(q[x], MM - 1, LB)]          \* [j+1][i+1]
DefPoly(a, b) == PTrim(PProd(<<RysTabs[1][b[1] + 1][a[1] + 1], RysTabs[2][b[2] + 1][a[2] + 1], RysTabs[3][b[3] + 1][a[3] + 1]>>))
Shift(p, m) == IF PTrim(p) = <<0>> THEN <<0>> ELSE [n \in 1..(Len(p) + m) |-> IF n <= m THEN 0 ELSE p[n - m]]

\* vertical stage: meaningful iff m + |a| <= MM - 1
VertOK ==
  pc[1] \in {"vert", "copy"} =>
    \A k \in fresh : k[1] + k[2] + k[3] + k[4] <= MM - 1 =>
       vert[k] = PTrim(Shift(DefPoly(<<k[2], k[3], k[4]>>, <<0, 0, 0>>), k[1]))

\* horizontal stage: meaningful iff |a| + |b| <= MM - 1
HorOK ==
  pc[1] \in {"hor", "done"} =>
    \A k \in fresh : k[1] + k[2] + k[3] + k[4] + k[5] + k[6] <= MM - 1 =>
       hor[k] = DefPoly(<<k[4], k[5], k[6]>>, <<k[1], k[2], k[3]>>)

\* what the code finally selects: every a with |a| = LA, b with |b| = LB
DoneOK ==
  pc[1] = "done" =>
    \A k \in DOMAIN hor :
       (k[4] + k[5] + k[6] = LA /\ k[1] + k[2] + k[3] = LB) =>
          hor[k] = DefPoly(<<k[4], k[5], k[6]>>, <<k[1], k[2], k[3]>>)
=============================================================================
