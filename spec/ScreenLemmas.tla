---------------------------- MODULE ScreenLemmas ----------------------------
(***************************************************************************)
(* Unbounded lemmas behind Screen.tla (C20), proved with TLAPS.  Quantities *)
(* are integers standing for cross-multiplied rationals with positive       *)
(* denominators: s = (a + b) > 0, x = d^2 a b, L1 <= L2 two values of       *)
(* -ln(tolerance).                                                          *)
(***************************************************************************)
EXTENDS Integers, TLAPS

\* lowering the tolerance (raising L) never removes more blocks
THEOREM Monotone ==
  ASSUME NEW s \in Int, NEW x \in Int, NEW L1 \in Int, NEW L2 \in Int,
         s > 0, L1 <= L2, s * L2 < x
  PROVE  s * L1 < x
<1>1. s * L1 <= s * L2
  BY SMT
<1>2. QED
  BY <1>1, SMT

\* harmonic-mean lemma: for positive a <= a2 and b <= b2,  a*b*(a2 + b2) <= a2*b2*(a + b)
THEOREM HarmonicMean ==
  ASSUME NEW a \in Int, NEW b \in Int, NEW a2 \in Int, NEW b2 \in Int,
         a > 0, b > 0, a <= a2, b <= b2
  PROVE  a * b * (a2 + b2) <= a2 * b2 * (a + b)
<1>1. a * b * a2 <= a2 * b2 * a
  <2>1. a * a2 * b <= a * a2 * b2
    BY SMT
  <2>2. QED
    BY <2>1, SMT
<1>2. a * b * b2 <= a2 * b2 * b
  <2>1. b * b2 * a <= b * b2 * a2
    BY SMT
  <2>2. QED
    BY <2>1, SMT
<1>3. QED
  BY <1>1, <1>2, SMT
=============================================================================
