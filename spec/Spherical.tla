----------------------------- MODULE Spherical -----------------------------
(***************************************************************************)
(* L1 -- real regular solid harmonics and the Cartesian->spherical matrix.  *)
(*                                                                          *)
(* Two descriptions of the 2l+1 pure functions of angular momentum l:       *)
(*                                                                          *)
(*  Def   (DEFINITION, from Legendre's polynomial, not from gbasis):        *)
(*        C_lm + i S_lm = (x + i y)^m Q_lm(z, r^2),                         *)
(*        Q_lm = sum_k (-1)^k (2l-2k)! / (2^l k! (l-k)! (l-2k-m)!)          *)
(*                     z^(l-2k-m) (x^2+y^2+z^2)^k                           *)
(*                                                                          *)
(*  Impl  (gbasis/spherical.py lines 101-117 and 207-223 TRANSCRIBED):      *)
(*        sum over (i, j, k) of (-1)^(i+k-shift) 4^-i C(l,i) C(l-i,|m|+i)   *)
(*        C(i,j) C(|m|,2k) x^(2i+|m|-2(j+k)) y^(2(j+k)) z^(l-2i-|m|),       *)
(*        times harmonic_norm(l, m), times sqrt(prod (2a-1)!! / (2l-1)!!).  *)
(*                                                                          *)
(* Polynomials are functions from the monomials of degree l (triples        *)
(* <<ax, ay, az>>) to F_P.  The properties checked by TLC for every l and m *)
(* characterise the functions uniquely: homogeneous of degree l, harmonic,  *)
(* orthonormal in the metric of unit-normalised Cartesian functions, with   *)
(* the top z-power part equal to a POSITIVE multiple of Re/Im (x+iy)^m.     *)
(* Signs need true integers: all terms of Impl that feed one monomial share *)
(* i, so the sign is that of a small integer sum (SignSum).                 *)
(***************************************************************************)
EXTENDS Exact, Layout, FiniteSets, Functions

Monos(l) == {t \in {<<x, y, l - x - y>> : x \in 0..l, y \in 0..l} : t[3] >= 0}

\* true integer binomials (n <= 30 fits in 32 bits)
PascalInt ==
  LET Step(rows, n) ==
        LET prev == rows[Len(rows)]
        IN  Append(rows, [k \in 1..(n + 1) |-> IF k = 1 \/ k = n + 1 THEN 1 ELSE prev[k - 1] + prev[k]])
  IN  FoldLeft(Step, << <<1>> >>, [n \in 1..30 |-> n])
BinomI(n, k) == IF k < 0 \/ k > n THEN 0 ELSE PascalInt[n + 1][k + 1]

Abs(m) == IF m < 0 THEN -m ELSE m
Odd(m) == IF m < 0 THEN 1 ELSE 0          \* sine partners have odd powers of y

(***************************************************************************)
(* Impl: the expansion of gbasis.  For a monomial a the summation index i   *)
(* is fixed by a_z and j + k by a_y; SignSum is the integer                 *)
(*     sum_k (-1)^k C(i, s-k) C(|m|, 2k + odd)      (s = (a_y - odd)/2)     *)
(***************************************************************************)
ImplI(l, m, a)  == (l - Abs(m) - a[3]) \div 2
ImplOK(l, m, a) == /\ l - Abs(m) - a[3] >= 0
                   /\ (l - Abs(m) - a[3]) % 2 = 0
                   /\ a[2] % 2 = Odd(m)
SignSum(l, m, a) ==
  LET i == ImplI(l, m, a)
      s == (a[2] - Odd(m)) \div 2
      term(k) == IF s - k >= 0 /\ s - k <= i
                 THEN (IF k % 2 = 0 THEN 1 ELSE -1) * BinomI(i, s - k) * BinomI(Abs(m), 2 * k + Odd(m))
                 ELSE 0
  IN  FoldLeft(LAMBDA acc, k : acc + term(k - 1), 0, [k \in 1..(Abs(m) \div 2 + 1) |-> k])

\* sign (-1, 0, 1) of the coefficient of monomial a in Impl
ImplSign(l, m, a) ==
  IF ~ImplOK(l, m, a) THEN 0
  ELSE LET s == SignSum(l, m, a) * (IF ImplI(l, m, a) % 2 = 0 THEN 1 ELSE -1)
       IN  IF s > 0 THEN 1 ELSE IF s < 0 THEN -1 ELSE 0

\* the coefficient itself in F_P (without harmonic_norm)
ImplCoef(l, m, a) ==
  IF ~ImplOK(l, m, a) THEN 0
  ELSE LET i == ImplI(l, m, a)
           s == SignSum(l, m, a)
       IN  Mul(Mul(IF i % 2 = 0 THEN 1 ELSE P - 1, PowM(Inv(4), i)),
               Mul(Mul(Binom(l, i), Binom(l - i, Abs(m) + i)), FromInt(s)))

Impl(l, m) == Memo([a \in Monos(l) |-> ImplCoef(l, m, a)])

\* harmonic_norm(l, m)^2 = (2 (l+|m|)! (l-|m|)! / 2^[m=0]) / (2^|m| l!)^2
HarmNorm2(l, m) ==
  Div(Div(Mul(2, Mul(Fact(l + Abs(m)), Fact(l - Abs(m)))), IF m = 0 THEN 2 ELSE 1),
      Mul(PowM(2, 2 * Abs(m)), Mul(Fact(l), Fact(l))))

(***************************************************************************)
(* Def: Legendre form.  Ang = Re or Im of (x + i y)^|m|, Q as above.        *)
(***************************************************************************)
\* coefficient of x^(n-k) y^k in Re / Im (x + i y)^n, as a true integer
AngI(n, k, odd) ==
  IF k % 2 # odd THEN 0
  ELSE (IF (k \div 2) % 2 = 0 THEN 1 ELSE -1) * BinomI(n, k)

\* coefficient of z^(l-2k-|m|) r^(2k) in Q_l|m|
QCoef(l, am, k) ==
  Div(Mul(IF k % 2 = 0 THEN 1 ELSE P - 1, Fact(2 * l - 2 * k)),
      Mul(Mul(PowM(2, l), Fact(k)), Mul(Fact(l - k), Fact(l - 2 * k - am))))

\* multinomial coefficient of x^(2u) y^(2v) z^(2w) in (x^2+y^2+z^2)^(u+v+w)
Multi(u, v, w) == Div(Fact(u + v + w), Mul(Fact(u), Mul(Fact(v), Fact(w))))

DefCoef(l, m, a) ==
  LET am == Abs(m)
      \* a = (ang part x^(am-t) y^t) * z^(l-2k-am) * x^(2u) y^(2v) z^(2w),  u+v+w = k
      terms == {<<t, k, u, v>> \in (0..am) \X (0..((l - am) \div 2)) \X (0..(l \div 2)) \X (0..(l \div 2)) :
                  /\ u + v <= k
                  /\ a[1] = am - t + 2 * u
                  /\ a[2] = t + 2 * v
                  /\ a[3] = l - 2 * k - am + 2 * (k - u - v)
                  /\ AngI(am, t, Odd(m)) # 0}
      val(q) == Mul(FromInt(AngI(am, q[1], Odd(m))),
                    Mul(QCoef(l, am, q[2]), Multi(q[3], q[4], q[2] - q[3] - q[4])))
  IN  FoldFunctionOnSet(Add, 0, [q \in terms |-> val(q)], terms)

Def(l, m) == Memo([a \in Monos(l) |-> DefCoef(l, m, a)])

(***************************************************************************)
(* Properties of a polynomial h of degree l.                                *)
(***************************************************************************)
\* Laplacian: coefficient of monomial b of degree l-2
LapCoef(h, l, b) ==
  Add(Add(Mul(FromInt((b[1] + 2) * (b[1] + 1)), h[<<b[1] + 2, b[2], b[3]>>]),
          Mul(FromInt((b[2] + 2) * (b[2] + 1)), h[<<b[1], b[2] + 2, b[3]>>])),
      Mul(FromInt((b[3] + 2) * (b[3] + 1)), h[<<b[1], b[2], b[3] + 2>>]))
Harmonic(h, l) == l < 2 \/ \A b \in Monos(l - 2) : LapCoef(h, l, b) = 0

\* metric of the monomials under a common radial factor: prod (a+b-1)!! for even sums
Metric(a, b) ==
  IF (a[1] + b[1]) % 2 = 1 \/ (a[2] + b[2]) % 2 = 1 \/ (a[3] + b[3]) % 2 = 1 THEN 0
  ELSE Mul(DFm1(a[1] + b[1]), Mul(DFm1(a[2] + b[2]), DFm1(a[3] + b[3])))
Inner(h, g, l) ==
  LET ms == Monos(l)
      prs == ms \X ms
  IN  FoldFunctionOnSet(Add, 0, [pr \in prs |-> Mul(Mul(h[pr[1]], g[pr[2]]), Metric(pr[1], pr[2]))], prs)

\* h = kappa * g for one kappa (cross-multiplication against a pivot where g # 0)
Proportional(h, g, l) ==
  \E pv \in Monos(l) : g[pv] # 0 /\ \A a \in Monos(l) : Mul(h[a], g[pv]) = Mul(g[a], h[pv])

\* top z-power part of Impl(l, m) is ImplSign-positive multiple of Re/Im (x+iy)^|m|
PolePhase(l, m) ==
  \A t \in 0..Abs(m) :
     LET a == <<Abs(m) - t, t, l - Abs(m)>>
         want == AngI(Abs(m), t, Odd(m))
     IN  ImplSign(l, m, a) = (IF want > 0 THEN 1 ELSE IF want < 0 THEN -1 ELSE 0)

(***************************************************************************)
(* The transformation matrix on UNIT-NORMALISED Cartesian functions:        *)
(*   T[m][a]^2 = Impl[a]^2 * HarmNorm2 * prod(2a-1)!! / (2l-1)!!            *)
(*   sign      = ImplSign.                                                  *)
(***************************************************************************)
TSquare(l, m, a) ==
  LET c == ImplCoef(l, m, a)
  IN  Div(Mul(Mul(Mul(c, c), HarmNorm2(l, m)),
              Mul(DFm1(2 * a[1]), Mul(DFm1(2 * a[2]), DFm1(2 * a[3])))), DFm1(2 * l))

\* m of a label <<kind, |m|>>
MOf(lab) == IF lab[1] = "c" THEN lab[2] ELSE -lab[2]
Ms(l) == (-l)..l
=============================================================================
