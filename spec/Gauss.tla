------------------------------- MODULE Gauss -------------------------------
(***************************************************************************)
(* L1 -- DEFINITIONS of the one-dimensional Gaussian integrals, written     *)
(* from the textbook closed forms and not from gbasis.  Everything is in    *)
(* "reduced" form: the transcendental prefactor                             *)
(*        sqrt(pi/p) * exp(-a*b/(a+b) * (A-B)^2)        (p = a + b)         *)
(* of the product of the two one-dimensional Gaussians is divided out, so   *)
(* every value is a rational function of (a, b, A, B, C) and lives in F_P.  *)
(*                                                                          *)
(* A parameter record `q` of one axis of one primitive pair has the fields  *)
(*   a, b   exponents        A, B   centres     C   moment origin / charge  *)
(* all already reduced into F_P (Exact!FromDyadic / FromRat).               *)
(***************************************************************************)
EXTENDS Exact

(***************************************************************************)
(* Derive(r) computes, once per axis record, the quantities every formula   *)
(* below uses (TLC re-evaluates an operator at every use, and a division    *)
(* in F_P costs ~30 multiplications, so they are stored in the record).     *)
(***************************************************************************)
Derive(r) ==
  LET p    == Add(r.a, r.b)
      ip   == Inv(p)
      cen  == Mul(Add(Mul(r.a, r.A), Mul(r.b, r.B)), ip)       \* centre of the product
  IN  Memo([a |-> r.a, b |-> r.b, A |-> r.A, B |-> r.B, C |-> r.C,
            p |-> p, ip |-> ip, i2p |-> Mul(ip, Inv(2)), cen |-> cen,
            pa |-> Sub(cen, r.A), pb |-> Sub(cen, r.B), pc |-> Sub(cen, r.C)])

Inv2p(q)  == q.i2p
PA(q)     == q.pa
PB(q)     == q.pb
PC(q)     == q.pc

(***************************************************************************)
(* Central moments of the normalised Gaussian exp(-p t^2):                  *)
(*    <t^n> = (n-1)!! / (2p)^(n/2)   for even n,   0 for odd n.             *)
(***************************************************************************)
GMoment(n, inv2p) == IF n % 2 = 1 THEN 0 ELSE Mul(DFm1(n), PowM(inv2p, n \div 2))

\* expectation of a polynomial in t = x - P
GExpect(poly, inv2p) ==
  SumSeq([n \in 1..Len(poly) |-> Mul(poly[n], GMoment(n - 1, inv2p))])

(***************************************************************************)
(* Moment1D(i, j, k): reduced value of                                      *)
(*   Int (x-A)^i (x-B)^j (x-C)^k exp(-a(x-A)^2 - b(x-B)^2) dx               *)
(* by the binomial theorem about P.  k = 0 is the overlap.                  *)
(***************************************************************************)
Moment1D(q, i, j, k) ==
  GExpect(PProd(<<PPowLin(PA(q), i), PPowLin(PB(q), j), PPowLin(PC(q), k)>>), Inv2p(q))

Overlap1D(q, i, j) == Moment1D(q, i, j, 0)

(***************************************************************************)
(* The same closed form organised as a table (shared powers; TLC is an      *)
(* interpreter, so evaluation order matters for cost, not for meaning):     *)
(*   MomentTable(q, la, lb, km)[k+1][j+1][i+1] = Moment1D(q, i, j, k).      *)
(* TableIsDef states that equality; MC_OSMoment checks it on the grid.      *)
(***************************************************************************)
MomentTable(q, la, lb, km) ==
  LET pa  == Memo([i \in 1..(la + 1) |-> PPowLin(q.pa, i - 1)])
      pb  == Memo([j \in 1..(lb + 1) |-> PPowLin(q.pb, j - 1)])
      pc  == Memo([k \in 1..(km + 1) |-> PPowLin(q.pc, k - 1)])
      gm  == Memo([n \in 1..(la + lb + km + 1) |-> GMoment(n - 1, q.i2p)])
      pbc == Memo([k \in 1..(km + 1) |-> [j \in 1..(lb + 1) |-> PMul(pb[j], pc[k])]])
  IN  Memo([k \in 1..(km + 1) |-> [j \in 1..(lb + 1) |-> [i \in 1..(la + 1) |->
              PDot(PMul(pa[i], pbc[k][j]), gm)]]])

TableIsDef(q, la, lb, km) ==
  LET t == MomentTable(q, la, lb, km)
  IN  \A k \in 0..km, j \in 0..lb, i \in 0..la : t[k + 1][j + 1][i + 1] = Moment1D(q, i, j, k)

(***************************************************************************)
(* Derivative of the RIGHT function.  In powers of u = x - B,               *)
(*   d/dx [ u^n exp(-b u^2) ] = ( n u^(n-1) - 2 b u^(n+1) ) exp(-b u^2),    *)
(* so differentiating maps a coefficient vector v (index = power of u) to   *)
(*   v'[n] = (n+1) v[n+1] - 2 b v[n-1].                                     *)
(* Diff1D(i, j, m) = reduced Int (x-A)^i G_a  d^m/dx^m [ (x-B)^j G_b ] dx.  *)
(***************************************************************************)
DiffVec(v, b) ==
  Memo([n \in 1..(Len(v) + 1) |->
     Sub(IF n + 1 <= Len(v) THEN Mul(FromInt(n), v[n + 1]) ELSE 0,
         IF n >= 2 THEN Mul(Mul(2, b), v[n - 1]) ELSE 0)])

RECURSIVE DiffVecN(_, _, _)
DiffVecN(v, b, m) == IF m = 0 THEN v ELSE DiffVecN(DiffVec(v, b), b, m - 1)

Monomial(j) == [n \in 1..(j + 1) |-> IF n = j + 1 THEN 1 ELSE 0]

Diff1D(q, i, j, m) ==
  LET v == DiffVecN(Monomial(j), q.b, m)
  IN  SumSeq([n \in 1..Len(v) |-> Mul(v[n], Overlap1D(q, i, n - 1))])

\* DiffTable(q, la, lb, dm)[m+1][j+1][i+1] = Diff1D(q, i, j, m), from one overlap table
DiffTable(q, la, lb, dm) ==
  LET ov == MomentTable(q, la, lb + dm, 0)[1]                  \* ov[n+1][i+1] = Overlap1D(q, i, n)
      dv == Memo([m \in 1..(dm + 1) |-> [j \in 1..(lb + 1) |-> DiffVecN(Monomial(j - 1), q.b, m - 1)]])
  IN  Memo([m \in 1..(dm + 1) |-> [j \in 1..(lb + 1) |-> [i \in 1..(la + 1) |->
              SumSeq([n \in 1..Len(dv[m][j]) |-> Mul(dv[m][j][n], ov[n][i])])]]])

DiffTableIsDef(q, la, lb, dm) ==
  LET t == DiffTable(q, la, lb, dm)
  IN  \A m \in 0..dm, j \in 0..lb, i \in 0..la : t[m + 1][j + 1][i + 1] = Diff1D(q, i, j, m)

(***************************************************************************)
(* Three-dimensional reduced integrals are products over the axes.  `qs`    *)
(* is a triple of axis records; ca, cb, o are component / order triples.    *)
(***************************************************************************)
Moment3D(qs, ca, cb, o) ==
  ProdSeq([x \in 1..3 |-> Moment1D(qs[x], ca[x], cb[x], o[x])])

\* -1/2 Laplacian on the right function, reduced
Kinetic3D(qs, ca, cb) ==
  LET D(x) == ProdSeq([y \in 1..3 |->
                 IF y = x THEN Diff1D(qs[y], ca[y], cb[y], 2)
                          ELSE Overlap1D(qs[y], ca[y], cb[y])])
  IN  Mul(Neg(Inv(2)), SumSeq([x \in 1..3 |-> D(x)]))

\* d/dx_k on the right function, reduced (momentum = -i times this)
Grad3D(qs, ca, cb, k) ==
  ProdSeq([y \in 1..3 |-> IF y = k THEN Diff1D(qs[y], ca[y], cb[y], 1)
                                   ELSE Overlap1D(qs[y], ca[y], cb[y])])

\* (r x grad)_k about the coordinate origin (C = 0 in every axis record), reduced
AngMom3D(qs, ca, cb, k) ==
  LET n1 == (k % 3) + 1          \* cyclic successors of axis k
      n2 == ((k + 1) % 3) + 1
      X(y, ord) == Moment1D(qs[y], ca[y], cb[y], ord)
      \* Int phi_a  x_y d/dx_z phi_b : first moment on y, derivative on z
      \* (x - 0) phi_b = the moment about the origin; the derivative acts on
      \* phi_b only, so on axis z the integrand is plain Diff1D, on axis y
      \* plain Moment1D of order 1, on the third axis the overlap.
      T(y, z) == ProdSeq([w \in 1..3 |->
                    IF w = y THEN X(w, 1)
                    ELSE IF w = z THEN Diff1D(qs[w], ca[w], cb[w], 1)
                    ELSE Overlap1D(qs[w], ca[w], cb[w])])
  IN  Sub(T(n1, n2), T(n2, n1))
=============================================================================
