---------------------------- MODULE MC_OSMoment ----------------------------
(* Exhaustive model: the as-implemented Obara-Saika table against the L1    *)
(* closed form on the rational grid G1 (DESIGN.md appendix F).              *)
EXTENDS Integers, Sequences

CONSTANT P

Rat(n, d) == <<n, d>>
Exps   == {Rat(1, 2), Rat(1, 1), Rat(3, 1), Rat(7, 2)}
Cens   == {<<Rat(0, 1), Rat(0, 1)>>, <<Rat(0, 1), Rat(1, 1)>>,
           <<Rat(0, 1), Rat(-3, 2)>>, <<Rat(1, 2), Rat(-1, 1)>>}
Origs  == {Rat(0, 1), Rat(2, 1), Rat(-1, 2)}

E == INSTANCE Exact

G == INSTANCE Gauss

MCGrid == {G!Derive([a |-> E!FromRat(ea), b |-> E!FromRat(eb),
            A |-> E!FromRat(c[1]), B |-> E!FromRat(c[2]), C |-> E!FromRat(o)]) :
             ea \in Exps, eb \in Exps, c \in Cens, o \in Origs}

MCShapes == {<<7, 5, 4>>, <<0, 0, 0>>, <<1, 0, 0>>, <<0, 1, 0>>, <<0, 0, 1>>,
             <<2, 1, 1>>, <<1, 2, 2>>, <<0, 3, 2>>, <<3, 0, 2>>}

VARIABLES q, shape, tab, pc, fresh
INSTANCE OSMoment WITH Grid <- MCGrid, Shapes <- MCShapes
=============================================================================
