CONSTANT P = 32749
SPECIFICATION Spec
INVARIANT FreshEqDef
INVARIANT DoneComplete
PROPERTY WriteOnce
CHECK_DEADLOCK FALSE
