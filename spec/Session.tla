------------------------------- MODULE Session -------------------------------
(***************************************************************************)
(* L5 -- a session of a caller with the library (C19, C18): caller-owned    *)
(* objects with abstract values, the process-wide floating-point error      *)
(* state, and the public calls as atomic actions at the API boundary.       *)
(*                                                                          *)
(*   val[o]      abstract value (a value id) of caller-owned object o: a    *)
(*               shell (its parameters AND its cached normalisation), an    *)
(*               array, a list, a dictionary                                *)
(*   normOf[s]   the parameter value of shell s its cached normalisation    *)
(*               was computed from                                          *)
(*   par[s]      the current parameter value of shell s                     *)
(*   npErr       numpy's error settings (a value id)                        *)
(*   memo        result already returned for <<function, argument values>>  *)
(*   last        the last step, for the replay harness                      *)
(*                                                                          *)
(* A public call -- whether it returns or raises -- leaves val and npErr    *)
(* unchanged and its result is a function of the argument VALUES (memo).    *)
(* The caller may change a shell's parameters (the cached normalisation is  *)
(* then stale until AssignNorm) or overwrite an array.  Deviations the code *)
(* is known to have had are named actions: MakeContractionsPop (the tree    *)
(* before its repair consumed the caller's coord_types list).               *)
(***************************************************************************)
EXTENDS Integers, Sequences, FiniteSets, TLC

CONSTANTS Shells,        \* shell objects
          Arrays,        \* array objects
          Lists,         \* list objects (coord_types)
          Funcs,         \* function names; ArgsOf[f] is the tuple of objects f is called with
          ArgsOf,
          RaisesF,       \* the functions whose arguments are deliberately invalid (the call raises)
          Canon,         \* Canon[f]: the function whose answers f shares -- a method of a long-lived integral object must
                         \* answer as the public function does, whatever the object has been asked before
          MaxVersions,   \* number of distinct values an object may take in the bounded model
          PopVariant     \* TRUE: model the tree before the make_contractions repair

VARIABLES val, npErr, memo, last
vars == <<val, npErr, memo, last>>

Objects == Shells \cup Arrays \cup Lists

\* The value of a shell is a pair <<p, n>>: p identifies its parameters (angular momentum, centre,
\* exponents, coefficients, coordinate type), n identifies its cached normalisation constants.
\* The value of any other object is a single id; 0 is the empty list.
Init == /\ val = [o \in Objects |-> IF o \in Shells THEN <<1, 1>> ELSE 1]
        /\ npErr = 1
        /\ memo = [k \in {<<"assign_norm", s, 1>> : s \in Shells} |-> 1]   \* a shell is normalised when constructed
        /\ last = <<"init">>

KeyOf(f) == <<Canon[f], [i \in 1..Len(ArgsOf[f]) |-> val[ArgsOf[f][i]]]>>

Remember(k, r) == /\ k \in DOMAIN memo => r = memo[k]
                  /\ memo' = IF k \in DOMAIN memo THEN memo ELSE memo @@ (k :> r)

\* a public call: pure, deterministic in the argument values; r is the result id (or exception class id)
Call(f, r) ==
  /\ UNCHANGED <<val, npErr>>
  /\ Remember(KeyOf(f), r)
  /\ last' = <<IF f \in RaisesF THEN "raise" ELSE "call", f>>

\* the caller changes the parameters of a shell to p2: the cached normalisation is kept (now stale)
Mutate(s, p2) ==
  /\ p2 # val[s][1]
  /\ val' = [val EXCEPT ![s] = <<p2, @[2]>>]
  /\ UNCHANGED <<npErr, memo>>
  /\ last' = <<"mutate", s, p2>>

\* the same change made IN PLACE on the arrays the shell holds (exps[k] = ..., coeffs *= ...): at the level of values it is
\* Mutate; the implementation must not tell the two apart (no memo keyed by the identity of the arrays)
MutateInPlace(s, p2) ==
  /\ p2 # val[s][1]
  /\ val' = [val EXCEPT ![s] = <<p2, @[2]>>]
  /\ UNCHANGED <<npErr, memo>>
  /\ last' = <<"mutate_inplace", s, p2>>

\* a NEW shell object is built from the array objects the old one holds: the constructor normalises it, and the constants
\* are those of the current parameters (what AssignNorm would give)
Rebuild(s, n) ==
  /\ val' = [val EXCEPT ![s] = <<@[1], n>>]
  /\ Remember(<<"assign_norm", s, val[s][1]>>, n)
  /\ UNCHANGED npErr
  /\ last' = <<"rebuild", s>>

\* assign_norm_cont(): the normalisation is recomputed; it is a function of the parameters only
AssignNorm(s, n) ==
  /\ val' = [val EXCEPT ![s] = <<@[1], n>>]
  /\ Remember(<<"assign_norm", s, val[s][1]>>, n)      \* ids are per object: shell s with parameters p
  /\ UNCHANGED npErr
  /\ last' = <<"assign_norm", s>>

Overwrite(a, v) ==
  /\ v # val[a]
  /\ val' = [val EXCEPT ![a] = v]
  /\ UNCHANGED <<npErr, memo>>
  /\ last' = <<"overwrite", a, v>>

\* the tree before its repair: make_contractions pops every entry of the caller's list
MakeContractionsPop(l) ==
  /\ PopVariant
  /\ val' = [val EXCEPT ![l] = 0]                     \* 0: the empty list
  /\ UNCHANGED <<npErr, memo>>
  /\ last' = <<"call_pop", l>>

\* for model checking and simulation the result / normalisation ids are drawn from a small range;
\* the normalisation id of parameters p is p itself (any injective choice would do)
Next == \/ \E f \in Funcs : \E r \in 1..2 : Call(f, IF KeyOf(f) \in DOMAIN memo THEN memo[KeyOf(f)] ELSE r)
        \/ \E s \in Shells : \/ \E p2 \in 1..MaxVersions : Mutate(s, p2)
                              \/ \E p3 \in 1..MaxVersions : MutateInPlace(s, p3)
                              \/ AssignNorm(s, val[s][1])
                              \/ Rebuild(s, val[s][1])
        \/ \E a \in Arrays : \E v \in 1..MaxVersions : Overwrite(a, v)
        \/ \E l \in Lists : MakeContractionsPop(l)

Spec == Init /\ [][Next]_vars

(***************************************************************************)
(* Properties.                                                              *)
(***************************************************************************)
\* purity: a step that is a public call changes no object and not the error state
IsCallStep == last'[1] \in {"call", "raise", "call_pop"}
Purity == [][IsCallStep => (val' = val /\ npErr' = npErr)]_vars

\* history independence: an answer once given for <<function, argument values>> is never revised
MemoStable == [][\A k \in DOMAIN memo : k \in DOMAIN memo' /\ memo'[k] = memo[k]]_vars

\* after assign_norm the cached normalisation is the one that belongs to the current parameters
AfterAssign == last[1] \in {"assign_norm", "rebuild"} =>
                 LET s == last[2] IN memo[<<"assign_norm", s, val[s][1]>>] = val[s][2]

ErrStateKept == npErr = 1
=============================================================================
