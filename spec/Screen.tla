-------------------------------- MODULE Screen --------------------------------
(***************************************************************************)
(* L4 -- overlap screening (C20), gbasis/integrals/overlap.py 173-218.      *)
(*                                                                          *)
(* DOCUMENTED CUTOFF: with L = -ln(tolerance), a shell pair at distance d   *)
(* is removed iff  d > sqrt( (a + b)/(a b) * L ),  a, b the SMALLEST        *)
(* exponents of the two shells; over Q (everything positive, L >= 0):       *)
(*            Removed  <=>  d^2 * a * b > (a + b) * L .                     *)
(* Quantities are rationals <<num, den>> with small integers; comparisons   *)
(* are cross-multiplied, so TLC decides them exactly, equality included.    *)
(*                                                                          *)
(* The model enumerates exponent sets, squared distances and L on both      *)
(* sides of every cutoff and checks: the decision as implemented (min of    *)
(* each shell) is the documented one; lowering the tolerance never removes  *)
(* more blocks; and the LEMMA behind the stated bound -- for every pair of  *)
(* primitives  a_k b_l/(a_k + b_l) >= a_min b_min/(a_min + b_min) -- so a   *)
(* removed pair has exp(-mu_kl d^2) < tolerance for all its primitives.     *)
(***************************************************************************)
EXTENDS Integers, Sequences, FiniteSets, FiniteSetsExt, TLC

CONSTANTS ExpSets,      \* set of sets of rationals <<n, d>>: the exponents of a shell
          Dist2,        \* set of rationals: squared centre distances
          Ls            \* set of rationals: L = -ln(tolerance) >= 0

\* ---- rationals ---------------------------------------------------------------
RLess(x, y)  == x[1] * y[2] < y[1] * x[2]
RLeq(x, y)   == x[1] * y[2] <= y[1] * x[2]
RMul(x, y)   == <<x[1] * y[1], x[2] * y[2]>>
RAdd(x, y)   == <<x[1] * y[2] + y[1] * x[2], x[2] * y[2]>>
RMin(S) == CHOOSE x \in S : \A y \in S : RLeq(x, y)
RMax(S) == CHOOSE x \in S : \A y \in S : RLeq(y, x)

\* ---- the documented decision, as a function of the two exponents used ---------
RemovedWith(a, b, d2, L) == RLess(RMul(RAdd(a, b), L), RMul(d2, RMul(a, b)))

Removed(ea, eb, d2, L)        == RemovedWith(RMin(ea), RMin(eb), d2, L)      \* specification and repaired code
RemovedMaxVariant(ea, eb, d2, L) == RemovedWith(RMax(ea), RMax(eb), d2, L)   \* negative control: largest exponents

VARIABLES ea, eb, d2, L
vars == <<ea, eb, d2, L>>

Init == ea \in ExpSets /\ eb \in ExpSets /\ d2 \in Dist2 /\ L \in Ls
Next == UNCHANGED vars
Spec == Init /\ [][Next]_vars

\* lowering the tolerance (raising L) never removes more blocks
Monotone == \A L2 \in Ls : RLeq(L, L2) => (Removed(ea, eb, d2, L2) => Removed(ea, eb, d2, L))

\* coincident centres are never screened; tolerance 1 (L = 0) screens everything at a positive distance
Corner == /\ (d2[1] = 0 => ~Removed(ea, eb, d2, L))
          /\ (L[1] = 0 /\ d2[1] > 0 => Removed(ea, eb, d2, L))

\* harmonic means: mu(a_k, b_l) >= mu(a_min, b_min) for every primitive pair
MuLeq(a1, b1, a2, b2) == RLeq(RMul(RMul(a1, b1), RAdd(a2, b2)), RMul(RMul(a2, b2), RAdd(a1, b1)))
Lemma == \A ak \in ea, bl \in eb : MuLeq(RMin(ea), RMin(eb), ak, bl)

\* hence: removed  =>  mu_kl d^2 > L for every primitive pair (i.e. exp(-mu_kl d^2) < tolerance)
Conservative ==
  Removed(ea, eb, d2, L) =>
    \A ak \in ea, bl \in eb : RLess(RMul(RAdd(ak, bl), L), RMul(d2, RMul(ak, bl)))

\* the variant with the largest exponents is NOT conservative somewhere (used as ASSUME: negative control)
MaxVariantUnsafe ==
  \E xa \in ExpSets, xb \in ExpSets, x2 \in Dist2, xl \in Ls :
     RemovedMaxVariant(xa, xb, x2, xl) /\ ~Removed(xa, xb, x2, xl)
=============================================================================
