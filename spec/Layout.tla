------------------------------- MODULE Layout -------------------------------
(***************************************************************************)
(* L3 (specification side) -- the DOCUMENTED order of basis functions:      *)
(* shell, then segmented contraction, then angular component; Cartesian     *)
(* components x-descending then y-descending; pure functions s_l .. s_1,    *)
(* c_0 .. c_l (and c1, s1, c0 for p shells).  A shell is a record           *)
(*    [l |-> angular momentum, M |-> number of segmented contractions,      *)
(*     typ |-> "cartesian" | "spherical"].                                  *)
(* The as-implemented assembly pipelines (Assembly*.tla) are checked        *)
(* against this module; the harness' own position map is compared with      *)
(* Positions(B) on the configurations of every run.                         *)
(***************************************************************************)
EXTENDS Integers, Sequences, SequencesExt

NCart(l)  == ((l + 1) * (l + 2)) \div 2
NSph(l)   == 2 * l + 1
NComp(s)  == IF s.typ = "cartesian" THEN NCart(s.l) ELSE NSph(s.l)
Size(s)   == s.M * NComp(s)

\* Cartesian component triples of angular momentum l, in the documented order
CartComps(l) ==
  LET xs == [n \in 1..(l + 1) |-> l + 1 - n]                         \* l, l-1, ..., 0
  IN  FlattenSeq([n \in 1..(l + 1) |->
         [k \in 1..(l - xs[n] + 1) |-> <<xs[n], l - xs[n] + 1 - k, k - 1>>]])

\* labels <<kind, m>> of the pure functions in the documented order
SphLabels(l) ==
  IF l = 1 THEN << <<"c", 1>>, <<"s", 1>>, <<"c", 0>> >>
  ELSE [n \in 1..l |-> <<"s", l + 1 - n>>] \o [n \in 1..(l + 1) |-> <<"c", n - 1>>]

Offset(B, k) == FoldLeft(LAMBDA acc, j : acc + Size(B[j]), 0, [j \in 1..(k - 1) |-> j])
Total(B)     == Offset(B, Len(B) + 1)

\* 1-based position of (shell k, segment m, component c)
Pos(B, k, m, c) == Offset(B, k) + (m - 1) * NComp(B[k]) + c

\* the inverse map as a sequence: Positions(B)[p] = <<k, m, c>>
Positions(B) ==
  FlattenSeq([k \in 1..Len(B) |->
     FlattenSeq([m \in 1..B[k].M |-> [c \in 1..NComp(B[k]) |-> <<k, m, c>>]])])

\* Pos and Positions are mutually inverse (checked by TLC over all small bases)
PosBijective(B) ==
  /\ Len(Positions(B)) = Total(B)
  /\ \A p \in 1..Total(B) :
        LET t == Positions(B)[p] IN Pos(B, t[1], t[2], t[3]) = p
=============================================================================
