---------------------------- MODULE Trace_Session ----------------------------
(***************************************************************************)
(* Code -> specification: validation of traces recorded from the real       *)
(* library against Session.tla.  A trace is a sequence of events logged by  *)
(* the harness at the return (or raise) of every public call and at every   *)
(* change the driver itself makes to an object:                             *)
(*   [op |-> "call"|"raise", f, res, pre, post, errpre, errpost]            *)
(*   [op |-> "mutate"|"mutate_inplace", obj, p]                             *)
(*   [op |-> "assign_norm"|"rebuild", obj, n, unit]                         *)
(*   [op |-> "overwrite", obj, v]                                           *)
(* pre / post give the value of EVERY live object before / after the step   *)
(* (value = identity of content, computed bitwise by the harness; shells    *)
(* are pairs <<parameters id, normalisation id>>).  Each trace action is    *)
(*   IsEvent /\ <logged pre-state is the specification's state>             *)
(*           /\ the Session action /\ <logged post-state is its outcome>    *)
(* so an event in which the implementation changed an argument, left the    *)
(* error state switched, or answered differently for equal argument values  *)
(* is not a step of the specification: the trace gets stuck there and       *)
(* NotStuck fails with the event number.  Many traces are validated per     *)
(* TLC run (one initial state each).                                        *)
(***************************************************************************)
EXTENDS Session

CONSTANT Traces      \* sequence of traces; the harness writes them as a literal module (TLC caches a literal
                     \* definition, whereas a JsonDeserialize call was re-evaluated at every reference: 89 s -> 3 s)

VARIABLES tid, l
tvars == <<vars, tid, l>>

Ev == Traces[tid][l]
ObjVal(rec, o) == IF o \in Shells THEN <<rec[o][1], rec[o][2]>> ELSE rec[o]
Matches(rec, v) == \A o \in Objects : ObjVal(rec, o) = v[o]

TraceInit == /\ tid \in 1..Len(Traces)
             /\ l = 1
             /\ Init

More == l <= Len(Traces[tid])

TraceCall ==
  /\ More /\ Ev.op \in {"call", "raise"}
  /\ Matches(Ev.pre, val) /\ npErr = Ev.errpre
  /\ (Ev.op = "raise") = (Ev.f \in RaisesF)            \* valid calls return, invalid ones are rejected
  /\ Call(Ev.f, Ev.res)
  /\ Matches(Ev.post, val') /\ npErr' = Ev.errpost
  /\ l' = l + 1 /\ UNCHANGED tid

TraceMutate ==
  /\ More /\ Ev.op \in {"mutate", "mutate_inplace"}
  /\ IF Ev.op = "mutate" THEN Mutate(Ev.obj, Ev.p) ELSE MutateInPlace(Ev.obj, Ev.p)
  /\ Matches(Ev.post, val')
  /\ l' = l + 1 /\ UNCHANGED tid

TraceRebuild ==
  /\ More /\ Ev.op = "rebuild"
  /\ Ev.unit
  /\ Rebuild(Ev.obj, Ev.n)
  /\ Matches(Ev.post, val')
  /\ l' = l + 1 /\ UNCHANGED tid

TraceAssignNorm ==
  /\ More /\ Ev.op = "assign_norm"
  /\ Ev.unit                                            \* observed: the shell's own overlap has a unit diagonal
  /\ AssignNorm(Ev.obj, Ev.n)
  /\ Matches(Ev.post, val')
  /\ l' = l + 1 /\ UNCHANGED tid

TraceOverwrite ==
  /\ More /\ Ev.op = "overwrite"
  /\ Overwrite(Ev.obj, Ev.v)
  /\ Matches(Ev.post, val')
  /\ l' = l + 1 /\ UNCHANGED tid

TraceNext == TraceCall \/ TraceMutate \/ TraceAssignNorm \/ TraceRebuild \/ TraceOverwrite

TraceSpec == TraceInit /\ [][TraceNext]_tvars

\* a trace that is not fully consumed and cannot take its next event has been rejected
NotStuck == More => ENABLED TraceNext

(***************************************************************************)
(* History independence ACROSS histories.  All traces of a run start from   *)
(* objects with the same values and share one registry of value ids, so the *)
(* same request <<function, argument values>> may occur after different     *)
(* histories (and in different worker processes): the answers must agree.   *)
(* This is a constant-level statement about the recorded traces (ASSUME in  *)
(* the generated model).                                                    *)
(***************************************************************************)
IsCall(e) == e.op \in {"call", "raise"}
ArgVals(e) == [i \in 1..Len(ArgsOf[e.f]) |-> ObjVal(e.pre, ArgsOf[e.f][i])]
CallsOf(f) == {<<t, i>> \in UNION {{<<t, i>> : i \in 1..Len(Traces[t])} : t \in 1..Len(Traces)} :
                 IsCall(Traces[t][i]) /\ Canon[Traces[t][i].f] = f}
CrossHistory ==
  \A f \in {Canon[g] : g \in Funcs} : \A x \in CallsOf(f), y \in CallsOf(f) :
     LET ex == Traces[x[1]][x[2]]
         ey == Traces[y[1]][y[2]]
     IN  ArgVals(ex) = ArgVals(ey) => (ex.res = ey.res /\ ex.op = ey.op)
=============================================================================
