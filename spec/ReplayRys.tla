------------------------------ MODULE ReplayRys ------------------------------
(***************************************************************************)
(* Specification -> code for the Coulomb integrals (C03, C04, C14, C11,     *)
(* C17): TLC evaluates the Rys-polynomial DEFINITIONS (Rys.tla) at the      *)
(* exact dyadic parameters of primitive pairs / quartets taken from the     *)
(* replay cases and writes the per-axis tables (polynomials in s over F_P). *)
(* The harness compares its own exact tables with them coefficient by       *)
(* coefficient before using them as the oracle for gbasis.                  *)
(*                                                                          *)
(* One-electron case: [id, kind |-> "1e", e |-> <<a, b>>, X |-> <<A, B, C>>, l |-> <<la, lb>>]      *)
(* Two-electron case: [id, kind |-> "2e", e |-> <<a, b, c, d>>, X |-> <<A, B, C, D>>, l |-> <<..>>] *)
(* (exponents dyadic, centres triples of dyadics).  Grid: consistency       *)
(* Rys!TwoToOne on rational parameters.                                     *)
(***************************************************************************)
EXTENDS Rys, TLC, Json, IOUtils

CONSTANTS Cases, GridRecs, GridL

VARIABLES cid, axis, done
vars == <<cid, axis, done>>

OutDir == IOEnv.GBV_OUT

Tab(c, x) ==
  IF c.kind = "1e"
  THEN Rys1DTable(Derive([a |-> FromDyadic(c.e[1]), b |-> FromDyadic(c.e[2]),
                          A |-> FromDyadic(c.X[1][x]), B |-> FromDyadic(c.X[2][x]), C |-> FromDyadic(c.X[3][x])]),
                  c.l[1], c.l[2])
  ELSE Rys2DTable(Derive2([a |-> FromDyadic(c.e[1]), b |-> FromDyadic(c.e[2]), c |-> FromDyadic(c.e[3]),
                           d |-> FromDyadic(c.e[4]),
                           A |-> FromDyadic(c.X[1][x]), B |-> FromDyadic(c.X[2][x]),
                           C |-> FromDyadic(c.X[3][x]), D |-> FromDyadic(c.X[4][x])]),
                  c.l[1], c.l[2], c.l[3], c.l[4])

\* cid = 0: the grid consistency check (axis indexes the grid record)
Init == /\ done = FALSE
        /\ \/ cid \in 1..Len(Cases) /\ axis \in 1..3
           \/ cid = 0 /\ axis \in 1..Len(GridRecs)

Eval ==
  /\ ~done /\ done' = TRUE /\ UNCHANGED <<cid, axis>>
  /\ IF cid = 0
     THEN LET g == GridRecs[axis]
          IN  Assert(TwoToOne([a |-> FromRat(g[1]), b |-> FromRat(g[2]), c |-> FromRat(g[3]), d |-> FromRat(g[3]),
                               A |-> FromRat(g[4]), B |-> FromRat(g[5]), C |-> FromRat(g[6]), D |-> FromRat(g[6])],
                              GridL, GridL),
                     <<"two-electron definition does not reduce to the one-electron one", g>>)
     ELSE JsonSerialize(OutDir \o "/rys_" \o ToString(Cases[cid].id) \o "_" \o ToString(axis) \o ".json",
                        [id |-> Cases[cid].id, axis |-> axis, prime |-> P, tab |-> Tab(Cases[cid], axis)])

Next == Eval
Spec == Init /\ [][Next]_vars
=============================================================================
