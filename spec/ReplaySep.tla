------------------------------ MODULE ReplaySep ------------------------------
(***************************************************************************)
(* Specification -> code, separable one-electron family (overlap, moments,  *)
(* derivative integrals: C01 C02 C07 C08 C16).  For every case of the run   *)
(* TLC evaluates the L1 definitions (Gauss.tla) at the case's exact dyadic  *)
(* parameters and writes the reduced tables (in F_P) and the layout of the  *)
(* basis (Layout.tla) as JSON.  The harness compares its own exact tables   *)
(* with these residues entry by entry before using them as the oracle for   *)
(* the numbers gbasis returns.                                              *)
(*                                                                          *)
(* A case: [id, shells |-> <<[l, M, typ, A |-> <<dy,dy,dy>>, exps |-> <<dy..>>]..>>, *)
(*          pairs |-> << <<k1,k2>> .. >>, origin |-> <<dy,dy,dy>>, km, dm]. *)
(***************************************************************************)
EXTENDS Gauss, Layout, TLC, Json, IOUtils

CONSTANT Cases

VARIABLES cid, pid, done       \* case, shell pair of the case, evaluated?
vars == <<cid, pid, done>>

OutDir == IOEnv.GBV_OUT

AxisRec(c, s1, s2, x, ia, ib) ==
  Derive([a |-> FromDyadic(s1.exps[ia]), b |-> FromDyadic(s2.exps[ib]),
          A |-> FromDyadic(s1.A[x]), B |-> FromDyadic(s2.A[x]), C |-> FromDyadic(c.origin[x])])

MomTab(q, la, lb, km) == MomentTable(q, la, lb, km)
DifTab(q, la, lb, dm) == DiffTable(q, la, lb, dm)

PairOut(c, pr) ==
  LET s1 == c.shells[pr[1]]
      s2 == c.shells[pr[2]]
  IN  [ia \in 1..Min2(Len(s1.exps), c.fpk) |-> [ib \in 1..Min2(Len(s2.exps), c.fpk) |-> [x \in 1..3 |->
         LET q == AxisRec(c, s1, s2, x, ia, ib)
         IN  [mom |-> MomTab(q, s1.l, s2.l, c.km), dif |-> DifTab(q, s1.l, s2.l, c.dm)]]]]

\* pid = 0: the layout of the case's basis; pid = n > 0: the tables of its n-th shell pair
Out(c, n) ==
  IF n = 0
  THEN [id |-> c.id, pair |-> 0, prime |-> P,
        layout |-> Positions([k \in 1..Len(c.shells) |->
                      [l |-> c.shells[k].l, M |-> c.shells[k].M, typ |-> c.shells[k].typ]]),
        comps |-> [k \in 1..Len(c.shells) |-> CartComps(c.shells[k].l)]]
  ELSE [id |-> c.id, pair |-> n, prime |-> P, tabs |-> PairOut(c, c.pairs[n])]

Init == /\ cid \in 1..Len(Cases)
        /\ pid \in 0..Len(Cases[cid].pairs)
        /\ done = FALSE

Eval ==
  /\ ~done
  /\ done' = TRUE
  /\ UNCHANGED <<cid, pid>>
  /\ JsonSerialize(OutDir \o "/sep_" \o ToString(Cases[cid].id) \o "_" \o ToString(pid) \o ".json",
                   Out(Cases[cid], pid))

Next == Eval
Spec == Init /\ [][Next]_vars

\* the layout of every case is a bijection (Layout!PosBijective)
LayoutOK ==
  LET c == Cases[cid]
  IN  PosBijective([k \in 1..Len(c.shells) |->
         [l |-> c.shells[k].l, M |-> c.shells[k].M, typ |-> c.shells[k].typ]])
=============================================================================
