-------------------------------- MODULE Classes --------------------------------
(***************************************************************************)
(* Configuration classes for the two properties that TLC cannot decide by   *)
(* itself (C16 quadrature consistency, C17 positivity / Schwarz bounds):    *)
(* it enumerates the classes -- number of shells, coordinate-type pattern,  *)
(* geometry class, contraction class -- and the harness draws parameters    *)
(* for every class.  The Gram-matrix structure the bounds rest on is stated *)
(* here on the abstract level: the pair-index flattening of the four-index  *)
(* array (Layout) is a bijection, so that "positive semi-definite as a      *)
(* matrix over index pairs" is well defined.                                *)
(***************************************************************************)
EXTENDS Integers, Sequences, FiniteSets, TLC

CONSTANTS MaxShells, Geoms, Contr

VARIABLES n, types, geom, contr
vars == <<n, types, geom, contr>>

Init == /\ n \in 1..MaxShells
        /\ types \in [1..n -> {"cartesian", "spherical"}]
        /\ geom \in Geoms
        /\ contr \in Contr
Next == UNCHANGED vars
Spec == Init /\ [][Next]_vars

\* pair index of (a, b) in an N x N array flattened row-major, and its inverse
PairIndex(a, b, N) == (a - 1) * N + b
PairBijective == \A N \in 1..4 : \A p \in 1..(N * N) :
                    \E a, b \in 1..N : PairIndex(a, b, N) = p /\ \A a2, b2 \in 1..N : PairIndex(a2, b2, N) = p => a2 = a /\ b2 = b
TypeOK == Len(types) = n
=============================================================================
