"""Developer helper: apply a textual mutation (or a patch file) to a scratch worktree of /repo under /tmp,
run checks against it, remove it.
   trymut.py 'C01,C02' --file gbasis/x.py --old 'a' --new 'b'   |   trymut.py C01 --patch p.diff  [--tests]"""
import argparse
import os
import shutil
import subprocess
import sys
import uuid

ap = argparse.ArgumentParser()
ap.add_argument("pids")
ap.add_argument("--file")
ap.add_argument("--old")
ap.add_argument("--new")
ap.add_argument("--patch")
ap.add_argument("--tests", action="store_true")
ap.add_argument("--tier", default="quick")
a = ap.parse_args()
wt = "/tmp/gbv_mut_" + uuid.uuid4().hex[:8]
subprocess.run(["git", "-C", "/repo", "worktree", "add", "-q", "--detach", wt, "HEAD"], check=True)
try:
    if a.patch:
        subprocess.run(["git", "-C", wt, "apply", os.path.abspath(a.patch)], check=True)
    else:
        p = os.path.join(wt, a.file)
        s = open(p).read()
        if s.count(a.old) < 1:
            print("pattern not found"); sys.exit(3)
        open(p, "w").write(s.replace(a.old, a.new))
    subprocess.run(["git", "-C", wt, "--no-pager", "diff", "--stat"])
    if a.tests:
        r = subprocess.run("cd %s && /venv/bin/python -m pytest -q -x -p no:cacheprovider --timeout=900 2>&1 | tail -3" % wt, shell=True)
    env = dict(os.environ, GBV_REPO=wt, GBV_NO_EVIDENCE="1")
    for pid in a.pids.split(","):
        r = subprocess.run(["/verif/check", pid, "--tier", a.tier], env=env, stdout=subprocess.PIPE, text=True)
        lines = r.stdout.strip().splitlines()
        print("== %s exit %d :: %s" % (pid, r.returncode, "\n   ".join(lines[:3] + lines[-1:])))
finally:
    subprocess.run(["git", "-C", "/repo", "worktree", "remove", "--force", wt])
    shutil.rmtree(wt, ignore_errors=True)
    subprocess.run(["git", "-C", "/repo", "worktree", "prune"])
