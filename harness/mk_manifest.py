"""Regenerates /verif/MANIFEST.json from the table below (run after adding a check)."""
import json
import os

VERIF = os.path.dirname(os.path.dirname(os.path.abspath(__file__)))
TRUST = ("TLC evaluates the TLA+ text faithfully; residues modulo two 15-bit primes stand for rationals; "
         "the evaluator (mpmath at 40 digits for exp/pi/powers/Boys function, numpy for sums of products) is "
         "cross-checked against TLC's residues entry by entry in every run; floating-point behaviour of gbasis at "
         "real inputs other than the sampled dyadic points is not covered")

CHECKS = {
    "C01": dict(tech="TLA+ model checking (TLC) of the as-implemented Obara-Saika table against the closed-form "
                     "definition + replay of TLC-evaluated exact values into gbasis",
                text="TLC checks exhaustively, on a rational grid and in exact (prime-field) arithmetic, that the recursion "
                     "as implemented equals the Gaussian-moment definition; the same definitions are evaluated by TLC at "
                     "seeded dyadic parameters for every ordered pair of angular momenta 0..5 and for whole bases, and the "
                     "overlap matrices gbasis returns are compared element-wise with those exact values (abs 1e-8), "
                     "including unit diagonal and the two-basis form",
                ref="DESIGN.md section 6 (C01)"),
    "C02": dict(tech="TLC model checking of the padded derivative recursion against Gauss!Diff1D + exact-value replay",
                text="as C01 for the kinetic-energy matrix: TLC proves on the grid that differentiating the left function on "
                     "a padded table equals the defining derivative of the right function (integration by parts) for every "
                     "entry that survives the crop; replay with tolerance 1e-8*sqrt(T_aa T_bb)",
                ref="DESIGN.md section 6 (C02)"),
    "C07": dict(tech="TLC model checking of the moment-order recursion + exact-value replay with order lists and origins",
                text="as C01 for multipole moments: every order triple list, origins on/off/far from centres, all types",
                ref="DESIGN.md section 6 (C07)"),
    "C03": dict(tech="TLC evaluation of the Gaussian-transform (Rys polynomial) definition in prime-field arithmetic + exact-value "
                     "replay for every ordered (l_a, l_b) <= 5 and charges on / between / far from centres",
                text="TLC evaluates the definition of <a|1/r_C|b> (per-axis polynomials in s, Boys-function basis) at the exact "
                     "parameters of the replay cases and checks that the two-electron definition reduces to it; gbasis' "
                     "point-charge arrays are compared per charge with tolerance 1e-8*sqrt(V_aa V_bb), nuclear attraction with "
                     "their sum, shell blocks in both orientations",
                ref="DESIGN.md section 6 (C03)"),
    "C04": dict(tech="TLC evaluation of the two-electron Rys-polynomial definition (bivariate-normal moments) + exact-value replay of "
                     "all 256 angular-momentum 4-tuples, ill-conditioned fixed list, whole bases in both notations",
                text="every shell quartet l <= 3 enumerated; block elements compared with exact values on the Schwarz scale "
                     "(1e-6), both Schwarz factors exact; whole-basis tensors in chemists' and physicists' notation; the fixed "
                     "list of tight-core/diffuse quartets in both bra/ket orientations",
                ref="DESIGN.md section 6 (C04)"),
    "C05": dict(tech="TLC proof-by-enumeration of polynomial identities (integer polynomials in x, alpha) for both derivative "
                     "back-ends + exact-value replay at dyadic points incl. centres and coordinate planes",
                text="the Leibniz/Hermite sum of the general back-end and the hand-expanded direct formulas equal the defining "
                     "polynomial Q_{a,m} for a <= 8, m <= 5 as polynomials (hence for all reals); replay of all order triples "
                     "0..4 against exact values; direct with an order above 2 must be rejected",
                ref="DESIGN.md section 6 (C05)"),
    "C06": dict(tech="TLC model checking of formal bilinear forms (Fields.tla) + exact replay + threshold decision table",
                text="as-implemented Leibniz half-range loop, gradient, Laplacian, Hessian bookkeeping equal their definitions for "
                     "all 125 order triples and all components (TLC, exhaustive); field values replayed against exact basis-function "
                     "derivatives; threshold rule exercised with exactly known negative values on both sides of the boundary",
                ref="DESIGN.md section 6 (C06)"),
    "C15": dict(tech="TLC model checking of formal differentiation (stress = documented expression, force = -div stress, "
                     "Hessian = Jacobian of force, guards) + exact replay",
                text="the three differential relations are finite symbolic identities with coefficients polynomial in alpha, beta; "
                     "TLC checks them for every tensor component together with the guarded special cases; replay at alpha, beta "
                     "in {0, 1/2, 1, generic}",
                ref="DESIGN.md section 6 (C15)"),
    "C09": dict(tech="TLC model checking of the as-implemented numpy pipelines on symbolic tensors against the documented layout "
                     "(every type pattern) + numpy binding + dummy-block / public-function / convention replay",
                text="for every cartesian/spherical assignment (1-4 shells one-index, 1-3 two-index, 1-2 four-index) the "
                     "tensordot/swapaxes/concatenate pipelines equal Layout symbolically, with and without a rectangular "
                     "transformation; negative controls must be reported; every enumerated pattern is replayed on labelled dummy "
                     "blocks through the real base classes, on every public function, and with permuted/sign-flipped conventions",
                ref="DESIGN.md section 6 (C09)"),
    "C10": dict(tech="TLC exhaustive check of the solid-harmonic characterisation for every l <= 10 + enumeration of conventions as a "
                     "state machine + replay of every reachable convention",
                text="for every l <= 10 and every (m, m') the transcribed expansion is harmonic, proportional to the Legendre-form "
                     "definition, orthonormal on unit-normalised Cartesians, with positive pole phase; every order/sign pattern for "
                     "l <= 2 and every Cartesian order for l <= 2 (depth-bounded above) is honoured exactly or rejected",
                ref="DESIGN.md section 6 (C10)"),
    "C11": dict(tech="TLC state machine of shell transpositions with its output law (Rewrites.tla) + replay of every ordering of 2-4 "
                     "shells through every public function; symmetry / Hermiticity / eight-fold symmetry; shell blocks in every orientation",
                text="TLC enumerates every ordering of 2, 3 and 4 shells as reachable states, checking that the function list stays a "
                     "permutation; each is replayed (index permutation law); shell-pair and quartet blocks are computed in both / five "
                     "orientations, including tight/diffuse shells, and compared on the C03/C04 scales",
                ref="DESIGN.md section 6 (C11)"),
    "C12": dict(tech="TLC check that the 48 signed axis permutations form a group with a homomorphic component law (Frames.tla) + replay of "
                     "every element, with translations, through every public function",
                text="for each of the 48 elements a seeded system is moved and every public function compared with the representation law "
                     "(signed permutation on Cartesian shells, T P T+ on spherical ones, vector / tensor / pseudo-vector laws, permuted "
                     "orders, d x p shift); random general rotations in addition",
                ref="DESIGN.md section 6 (C12)"),
    "C13": dict(tech="TLC state machine of contraction rewrites with a denotation invariant (Rewrites.tla) + replay of every reachable "
                     "rewritten basis through every public function; linearity of un-normalised blocks",
                text="split generalized shell / permute primitives / split primitive / scale column (both signs, 12 orders of magnitude) as "
                     "actions; TLC checks in every reachable state that every column denotes the original function; every state (depth-"
                     "bounded exhaustive + simulated deeper) is replayed with the index/sign law",
                ref="DESIGN.md section 6 (C13)"),
    "C14": dict(tech="TLC decision table of the nucleus mask and the density-matrix size rule (Esp.tla) + exact-value replay with thresholds "
                     "bracketing exactly representable distances",
                text="mask rule d < tau for every combination of distance/threshold order, charge sign and magnitude, zero cases; pinned "
                     "variants must differ (negative controls); exact electronic term from the Rys definition; square and rectangular "
                     "transformations; numpy error state restored",
                ref="DESIGN.md section 6 (C14)"),
    "C16": dict(level="exploration", tech="replay of the stated quadrature relation on TLC-enumerated configuration classes",
                text="TLC enumerates shells x type pattern x geometry x contraction classes; for each a seeded basis: trapezoid quadrature of "
                     "gbasis' own evaluations reproduces its overlap, moment, kinetic matrices, tr(PS) and tr(PT) to 1e-8",
                ref="DESIGN.md section 6 (C16)", note="sampled; the quadrature error bound (h = 0.2, exponents <= 2.5) is analytic, not checked by TLC"),
    "C17": dict(level="exploration", tech="replay of the stated inequalities on TLC-enumerated configuration classes",
                text="TLC enumerates 1-5 shells x type pattern x geometry class (coincident .. nearly dependent) x contraction class; "
                     "eigenvalue and Schwarz bounds checked on gbasis' outputs with the stated slack",
                ref="DESIGN.md section 6 (C17)", note="sampled; TLC cannot evaluate eigenvalues"),
    "C18": dict(tech="TLC exhaustive round trip Parse(Render(f)) = Columns(f) over all small files x layouts x formats (BasisFile.tla) + "
                     "replay of every enumerated file and seeded large files; make_contractions / from_pyscf with reused arguments",
                text="40320 abstract files/layouts checked in TLC (pinned line machine must fail: negative control); each rendered with "
                     "E/D/plain numbers and parsed by the real parsers; molecules with repeated elements and coordinate types as "
                     "string/list/tuple, same argument objects reused",
                ref="DESIGN.md section 6 (C18)"),
    "C19": dict(tech="TLC model checking of Session.tla (purity, history independence, error state) + simulation-generated behaviours executed "
                     "on real shared objects + trace validation of the recordings against the specification (Trace_Session.tla)",
                text="both conformance directions: TLC behaviours over 35 public functions (valid and invalid) with parameter updates, "
                     "renormalisation and overwrites are executed; every step's full object/value/error-state snapshot is recorded and the "
                     "traces are validated by TLC; a trace is rejected exactly where a call changes an object, leaves the error state "
                     "switched or answers differently for equal argument values",
                ref="DESIGN.md section 6 (C19)"),
    "C20": dict(tech="TLC exhaustive check of the cutoff decision, monotonicity and the harmonic-mean lemma over Q (Screen.tla) + replay of "
                     "the block pattern",
                text="decision with the smallest exponents on both sides of every cutoff, monotone in the tolerance, conservative for every "
                     "primitive pair (largest-exponent variant: negative control); replay: removed blocks exactly zero, kept blocks "
                     "identical to the unscreened call, bound on removed s-type elements, transformed path, boolean tolerance rejected",
                ref="DESIGN.md section 6 (C20)"),
    "C08": dict(tech="TLC model checking (derivative/moment tables) + exact-value replay of every ordered pair and component "
                     "+ Hermiticity of the assembled arrays",
                text="momentum and angular-momentum arrays compared with exact values of -i<a|grad|b>, -i<a|r x grad|b> for "
                     "both triangles and the diagonal blocks, and checked Hermitian",
                ref="DESIGN.md section 6 (C08)"),
}


def main():
    props = [json.loads(l) for l in open(os.path.join(VERIF, "properties.jsonl"))]
    checks = []
    na = []
    for p in props:
        pid = p["id"]
        if pid in CHECKS:
            c = CHECKS[pid]
            checks.append({
                "property_id": pid,
                "quick_cmd": "./check %s --tier quick" % pid,
                "thorough_cmd": "./check %s --tier thorough" % pid,
                "evidence_file": "/verif/evidence/%s.json" % pid,
                "replay_cmd_template": "./check %s --replay {path}" % pid,
                "engine": "tlc+gbv",
                "level_claimed": {"category": c.get("level", "model_checking"), "text": c["text"], "design_ref": c["ref"]},
                "level_note": c.get("note", TRUST),
                "technique": c["tech"],
            })
        else:
            na.append({"property_id": pid, "reason": "check not built yet (framework under construction; see DESIGN.md section 12)"})
    m = {
        "version": 1,
        "setup_cmd": "/venv/bin/python -m compileall -q harness && /venv/bin/python harness/setup_check.py",
        "hooks": {"guard": "GBASIS_VERIF",
                  "enable": "no source hooks: every abstract state variable is observable through public attributes and "
                            "return values; checks import gbasis from the /repo working tree by path (GBV_REPO overrides it)",
                  "baseline_off_cmd": "cd /repo && /venv/bin/python -m pytest -ra -q -p no:cacheprovider --timeout=900 "
                                      "--continue-on-collection-errors",
                  "source_commits": [], "add_only": True},
        "engines": [{"name": "tlc+gbv", "path": "/verif/check",
                     "serves_properties": [c["property_id"] for c in checks],
                     "kind_free_text": "TLA+ specification in /verif/spec checked by TLC; Python harness /verif/harness/gbv "
                                       "replays TLC-generated cases/behaviours into gbasis and validates recorded traces"}],
        "checks": checks,
        "not_applicable": na,
        "notes": "See DESIGN.md. known_findings.json lists genuine defects (fixed / known).",
    }
    with open(os.path.join(VERIF, "MANIFEST.json"), "w") as fh:
        json.dump(m, fh, indent=1)


if __name__ == "__main__":
    main()
