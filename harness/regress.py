"""Regression of the stored seeded changes and benign refactorings against the CURRENT checks.
   regress.py seeded|benign [ids...]  [--jobs N]
For every /verif/seeded/<id> (or /verif/benign/<id>): a scratch worktree of /repo HEAD under /tmp, `git apply` of the stored
patch (falling back to `git apply -3`), the quick tier of the check of the seed's own property (benign: of the checks recorded
for it), worktree removed.  Result: /verif/<kind>/REGRESSION.json  {id: {"applies": bool, "checks": {check: exit}, ...}}.
A seeded change must make its check exit 1; a benign one must leave every check at exit 0."""
import json
import os
import shutil
import subprocess
import sys
import uuid
from concurrent.futures import ThreadPoolExecutor

kind = sys.argv[1]
args = sys.argv[2:]
jobs = 3
if "--jobs" in args:
    k = args.index("--jobs")
    jobs = int(args[k + 1])
    del args[k:k + 2]
ids = args
root = os.path.join("/verif", kind)
if not ids:
    ids = sorted(d for d in os.listdir(root) if os.path.isfile(os.path.join(root, d, "patch.diff")))
run = lambda cmd, **kw: subprocess.run(cmd, stdout=subprocess.PIPE, stderr=subprocess.STDOUT, text=True, **kw)  # noqa: E731


def one(i):
    src = os.path.join(root, i)
    meta = json.load(open(os.path.join(src, "meta.json")))
    if kind == "seeded":
        checks = [i.split("-")[0]]
    else:
        checks = sorted({r["check"] for r in meta.get("checked", {}).get("ran", [])}) or ["C01"]
    wt = "/tmp/gbv_reg_" + uuid.uuid4().hex[:8]
    subprocess.run(["git", "-C", "/repo", "worktree", "add", "-q", "--detach", wt, "HEAD"], check=True)
    rec = {"applies": True, "checks": {}, "messages": {}}
    try:
        a = run(["git", "-C", wt, "apply", os.path.join(src, "patch.diff")])
        if a.returncode != 0:
            a = run(["git", "-C", wt, "apply", "-3", os.path.join(src, "patch.diff")])
        if a.returncode != 0:
            rec["applies"] = False
            rec["note"] = "the stored patch was written against an earlier HEAD and no longer applies: " + a.stdout.strip().splitlines()[0][:200]
            return i, rec
        env = dict(os.environ, GBV_REPO=wt, GBV_NO_EVIDENCE="1", GBV_NPROC="6")
        for c in checks:
            r = run(["/verif/check", c, "--tier", "quick"], env=env)
            lines = [l for l in r.stdout.strip().splitlines() if "Warning" not in l]
            rec["checks"][c] = r.returncode
            rec["messages"][c] = next((l.strip()[:300] for l in lines if l.startswith("  ")), lines[-1][:300] if lines else "")
    finally:
        subprocess.run(["git", "-C", "/repo", "worktree", "remove", "--force", wt])
        shutil.rmtree(wt, ignore_errors=True)
    return i, rec


out = {}
path = os.path.join(root, "REGRESSION.json")
if os.path.exists(path) and len(ids) < 20:
    out = json.load(open(path)).get("results", {})
with ThreadPoolExecutor(max_workers=jobs) as ex:
    for i, rec in ex.map(one, ids):
        out[i] = rec
        want = 1 if kind == "seeded" else 0
        ok = rec["applies"] and all(v == want for v in rec["checks"].values())
        print(i, "ok" if ok else ("PATCH-OUTDATED" if not rec["applies"] else "UNEXPECTED %s" % rec["checks"]), flush=True)
subprocess.run(["git", "-C", "/repo", "worktree", "prune"])
head = subprocess.run(["git", "-C", "/repo", "rev-parse", "--short", "HEAD"], stdout=subprocess.PIPE, text=True).stdout.strip()
json.dump({"repo_head": head, "expected_exit": 1 if kind == "seeded" else 0, "results": out}, open(path, "w"), indent=1)
bad = [i for i, r in out.items() if r["applies"] and any(v != (1 if kind == "seeded" else 0) for v in r["checks"].values())]
print("%d entries, %d outdated patches, unexpected: %s" % (len(out), sum(1 for r in out.values() if not r["applies"]), bad))
