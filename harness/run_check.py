"""Entry point of every registered check: dispatches a property id to its driver."""
import argparse
import json
import os
import sys
import traceback

HERE = os.path.dirname(os.path.abspath(__file__))
sys.path.insert(0, HERE)

DRIVERS = {
    "C01": ("gbv.props.sep", {}), "C02": ("gbv.props.sep", {}), "C07": ("gbv.props.sep", {}),
    "C03": ("gbv.props.c03", {}),
    "C04": ("gbv.props.c04", {}),
    "C05": ("gbv.props.c05", {}),
    "C06": ("gbv.props.fields", {}), "C15": ("gbv.props.fields", {}),
    "C14": ("gbv.props.c14", {}), "C20": ("gbv.props.c20", {}),
    "C18": ("gbv.props.c18", {}), "C19": ("gbv.props.c19", {}),
    "C16": ("gbv.props.gram", {}), "C17": ("gbv.props.gram", {}),
    "C12": ("gbv.props.c12", {}), "C11": ("gbv.props.meta", {}), "C13": ("gbv.props.meta", {}),
    "C08": ("gbv.props.sep", {}),
    "C09": ("gbv.props.c09", {}),
    "C10": ("gbv.props.c10", {}),
}


def main():
    ap = argparse.ArgumentParser()
    ap.add_argument("pid")
    ap.add_argument("--tier", default=os.environ.get("VERIF_TIER", "quick"))
    ap.add_argument("--seed", type=int, default=int(os.environ.get("VERIF_SEED", "0") or 0))
    ap.add_argument("--replay")
    a = ap.parse_args()
    if a.tier not in ("quick", "thorough"):
        a.tier = "quick"
    import importlib
    from gbv import tlc
    try:
        modname, kw = DRIVERS[a.pid]
        mod = importlib.import_module(modname)
        if a.replay:
            with open(a.replay) as fh:
                rp = json.load(fh)
            return mod.run(a.pid, a.tier, a.seed, only_case=rp["replay"]["case"], **kw)
        return mod.run(a.pid, a.tier, a.seed, **kw)
    except tlc.MachineryError as exc:
        print("MACHINERY-FAILURE property=%s: %s" % (a.pid, exc))
        return 2
    except Exception:  # noqa: BLE001
        traceback.print_exc()
        print("MACHINERY-FAILURE property=%s: unexpected exception in the harness" % a.pid)
        return 2


if __name__ == "__main__":
    sys.exit(main())
