"""Confirm a seeded change (patch + demo from an independent sub-agent) and run checks against it.
   eval_seed.py <src dir with patch.diff demo.py meta.json> <seed id> <comma-separated check ids> [--notests]
Everything happens in a scratch worktree under /tmp that is removed afterwards; /repo is never touched.
On success the seed is stored as /verif/seeded/<seed id>/ (patch.diff, demo.py, meta.json)."""
import json
import os
import shutil
import subprocess
import sys
import time
import uuid

src, sid, pids = sys.argv[1], sys.argv[2], sys.argv[3].split(",")
notests = "--notests" in sys.argv
prior = None
if "--tests-line" in sys.argv:          # full-suite result confirmed in an earlier run of this tool on the same patch
    prior = sys.argv[sys.argv.index("--tests-line") + 1]
    notests = True
wt = "/tmp/gbv_seed_" + uuid.uuid4().hex[:8]
py = "/venv/bin/python"
run = lambda cmd, **kw: subprocess.run(cmd, stdout=subprocess.PIPE, stderr=subprocess.STDOUT, text=True, **kw)  # noqa: E731
subprocess.run(["git", "-C", "/repo", "worktree", "add", "-q", "--detach", wt, "HEAD"], check=True)
rec = {"ran": []}
try:
    demo = os.path.join(src, "demo.py")
    r0 = run([py, demo, wt], cwd=src)
    rec["demo_on_unchanged_tree_exit"] = r0.returncode
    a = run(["git", "-C", wt, "apply", os.path.join(os.path.abspath(src), "patch.diff")])
    if a.returncode != 0:
        print("patch does not apply:", a.stdout)
        sys.exit(3)
    r1 = run([py, demo, wt], cwd=src)
    rec["demo_on_changed_tree_exit"] = r1.returncode
    rec["demo_message"] = r1.stdout.strip().splitlines()[-3:]
    print("demo: clean exit %d, changed exit %d" % (r0.returncode, r1.returncode))
    if not notests:
        t = time.time()
        rt = run("cd %s && %s -m pytest -q -p no:cacheprovider --timeout=900 2>&1 | tail -2" % (wt, py), shell=True)
        rec["test_suite_with_change"] = rt.stdout.strip().splitlines()[-1]
        print("tests:", rec["test_suite_with_change"], "(%.0fs)" % (time.time() - t))
    env = dict(os.environ, GBV_REPO=wt, GBV_NO_EVIDENCE="1")
    for pid in pids:
        t = time.time()
        rc = run(["/verif/check", pid, "--tier", "quick"], env=env)
        lines = [l for l in rc.stdout.strip().splitlines() if "Warning" not in l]
        first = next((l for l in lines if l.startswith("  ")), "")
        rec["ran"].append({"check": pid, "tier": "quick", "exit": rc.returncode, "detected": rc.returncode == 1,
                           "first_message": first.strip()[:400], "summary": lines[-1] if lines else ""})
        print("check %s: exit %d  %s" % (pid, rc.returncode, first.strip()[:200]))
finally:
    subprocess.run(["git", "-C", "/repo", "worktree", "remove", "--force", wt])
    shutil.rmtree(wt, ignore_errors=True)
    subprocess.run(["git", "-C", "/repo", "worktree", "prune"])
import re
if prior:
    rec["test_suite_with_change"] = prior + " (confirmed in an earlier run of eval_seed.py on this patch)"
tl = rec.get("test_suite_with_change", "")
tests_ok = bool(re.search(r"\b192 passed\b", tl)) and not re.search(r"\b\d+ (failed|error)", tl)
ok = rec.get("demo_on_unchanged_tree_exit") == 0 and rec.get("demo_on_changed_tree_exit") == 1 and (tests_ok or (notests and not prior and os.path.exists(os.path.join("/verif/seeded", sid))))
dst = os.path.join("/verif/seeded", sid)
if ok:
    os.makedirs(dst, exist_ok=True)
    for f in ("patch.diff", "demo.py"):
        shutil.copy(os.path.join(src, f), os.path.join(dst, f))
    meta = json.load(open(os.path.join(src, "meta.json")))
    meta["confirmed"] = rec
    meta["repo_head"] = subprocess.run(["git", "-C", "/repo", "rev-parse", "--short", "HEAD"], stdout=subprocess.PIPE, text=True).stdout.strip()
    json.dump(meta, open(os.path.join(dst, "meta.json"), "w"), indent=1)
    print("stored", dst, "detected by:", [x["check"] for x in rec["ran"] if x["detected"]])
else:
    print("NOT CONFIRMED:", json.dumps(rec)[:600])
