"""Run checks against a BEHAVIOUR-PRESERVING change (patch from an independent sub-agent): every check must stay quiet.
   eval_benign.py <src dir with patch.diff meta.json> <id> <comma-separated check ids> [--tests]
A scratch worktree under /tmp is created and removed; /repo is never touched.  The result is stored in
/verif/benign/<id>/ (patch.diff, meta.json with the outcome of every check)."""
import json
import os
import shutil
import subprocess
import sys
import time
import uuid

src, bid, pids = sys.argv[1], sys.argv[2], sys.argv[3].split(",")
wt = "/tmp/gbv_benign_" + uuid.uuid4().hex[:8]
py = "/venv/bin/python"
run = lambda cmd, **kw: subprocess.run(cmd, stdout=subprocess.PIPE, stderr=subprocess.STDOUT, text=True, **kw)  # noqa: E731
subprocess.run(["git", "-C", "/repo", "worktree", "add", "-q", "--detach", wt, "HEAD"], check=True)
rec = {"ran": []}
try:
    a = run(["git", "-C", wt, "apply", os.path.join(os.path.abspath(src), "patch.diff")])
    if a.returncode != 0:
        print("patch does not apply:", a.stdout)
        sys.exit(3)
    if "--tests" in sys.argv:
        t = time.time()
        rt = run("cd %s && %s -m pytest -q -p no:cacheprovider --timeout=900 2>&1 | tail -2" % (wt, py), shell=True)
        rec["test_suite_with_change"] = rt.stdout.strip().splitlines()[-1]
        print("tests:", rec["test_suite_with_change"], "(%.0fs)" % (time.time() - t))
    env = dict(os.environ, GBV_REPO=wt, GBV_NO_EVIDENCE="1")
    for pid in pids:
        rc = run(["/verif/check", pid, "--tier", "quick"], env=env)
        lines = [l for l in rc.stdout.strip().splitlines() if "Warning" not in l]
        first = next((l for l in lines if l.startswith("  ")), "")
        rec["ran"].append({"check": pid, "tier": "quick", "exit": rc.returncode, "alarm": rc.returncode != 0,
                           "first_message": first.strip()[:600], "summary": lines[-1] if lines else ""})
        print("check %s: exit %d  %s" % (pid, rc.returncode, first.strip()[:300]))
finally:
    subprocess.run(["git", "-C", "/repo", "worktree", "remove", "--force", wt])
    shutil.rmtree(wt, ignore_errors=True)
    subprocess.run(["git", "-C", "/repo", "worktree", "prune"])
dst = os.path.join("/verif/benign", bid)
os.makedirs(dst, exist_ok=True)
shutil.copy(os.path.join(src, "patch.diff"), dst)
meta = json.load(open(os.path.join(src, "meta.json")))
meta["checked"] = rec
meta["repo_head"] = subprocess.run(["git", "-C", "/repo", "rev-parse", "--short", "HEAD"], stdout=subprocess.PIPE, text=True).stdout.strip()
json.dump(meta, open(os.path.join(dst, "meta.json"), "w"), indent=1)
print("stored", dst, "alarms:", [r["check"] for r in rec["ran"] if r["alarm"]])
