"""Layout.tla in Python: the documented order of basis functions (shell, then segmented contraction,
then angular component) and the weights W = identity (Cartesian) or the Cartesian->spherical matrix.

The position map computed here is compared with the one TLC computes from Layout.tla on the
configurations of every run (see props.common.layout_crosscheck)."""
import numpy as np

from . import exact


def ncart(l):
    return (l + 1) * (l + 2) // 2


def ncomp(sh):
    return ncart(sh["l"]) if sh.get("type", "cartesian") == "cartesian" else 2 * sh["l"] + 1


def nseg(sh):
    return len(sh["coeffs"][0])


def size(sh):
    return nseg(sh) * ncomp(sh)


def positions(basis):
    """[(shell index k, segment m, component c)] for every basis function, 0-based."""
    out = []
    for k, sh in enumerate(basis):
        for m in range(nseg(sh)):
            for c in range(ncomp(sh)):
                out.append((k, m, c))
    return out


def offsets(basis):
    off, o = [], 0
    for sh in basis:
        off.append(o)
        o += size(sh)
    return off, o


def weight(sh):
    """W[c, a]: output component c in terms of Cartesian component a (default conventions unless the
    case carries 'cart_order' / 'sph_order')."""
    l = sh["l"]
    if sh.get("type", "cartesian") == "cartesian":
        return np.eye(ncart(l))
    return exact.transform_float(l, sh.get("cart_order"), sh.get("sph_order"))


def assemble(bases, blockfn, norms):
    """Expected array over len(bases) basis indices.

    bases   : list of bases (one per index)
    blockfn : (shell indices tuple) -> (raw, rawabs) arrays of shape (M1, L1, M2, L2, ..., *extra) for
              UN-normalised contractions in Cartesian components; rawabs = sum of |terms| (for the
              condition-aware tolerance)
    norms   : list (per index) of lists (per shell) of arrays (M, L): contraction normalisation
    Returns (value, abs) arrays of shape (N1, N2, ..., *extra).
    """
    import itertools
    nidx = len(bases)
    offs = [offsets(b) for b in bases]
    first = True
    out = outabs = None
    letters = "abcdefgh"
    for ks in itertools.product(*[range(len(b)) for b in bases]):
        raw, rawabs = blockfn(ks)
        extra = raw.ndim - 2 * nidx
        res, resabs = raw, np.abs(rawabs)
        # normalise and transform index by index
        for n, k in enumerate(ks):
            sh = bases[n][k]
            nm = norms[n][k]
            shape = [1] * res.ndim
            shape[2 * n], shape[2 * n + 1] = nm.shape
            res = res * nm.reshape(shape)
            resabs = resabs * np.abs(nm).reshape(shape)
            W = weight(sh)
            res = np.moveaxis(np.tensordot(W, res, (1, 2 * n + 1)), 0, 2 * n + 1)
            resabs = np.moveaxis(np.tensordot(np.abs(W), resabs, (1, 2 * n + 1)), 0, 2 * n + 1)
        shp = []
        for n in range(nidx):
            shp.append(res.shape[2 * n] * res.shape[2 * n + 1])
        res = res.reshape(shp + list(res.shape[2 * nidx:]))
        resabs = resabs.reshape(res.shape)
        if first:
            tot = [o[1] for o in offs]
            out = np.zeros(tot + list(res.shape[nidx:]), dtype=res.dtype)
            outabs = np.zeros(tot + list(res.shape[nidx:]))
            first = False
        sl = tuple(slice(offs[n][0][k], offs[n][0][k] + res.shape[n]) for n, k in enumerate(ks))
        out[sl] = res
        outabs[sl] = resabs
    return out, outabs
