"""pytest plug-in (load with `-p gbv.recorder`, PYTHONPATH=/verif/harness): records every outermost call of a public
gbasis function made by the repository's own tests -- value ids of every object reachable from the arguments before
and after the call, numpy's error state before and after, a result id -- one history per test, written as JSON to
$GBV_TRACE_OUT at the end of the session.  Nothing in /repo is edited: the functions are wrapped at import time."""
import functools
import hashlib
import importlib
import json
import os

import numpy as np

PUBLIC = [
    ("gbasis.integrals.overlap", "overlap_integral"), ("gbasis.integrals.overlap_asymm", "overlap_integral_asymmetric"),
    ("gbasis.integrals.kinetic_energy", "kinetic_energy_integral"), ("gbasis.integrals.moment", "moment_integral"),
    ("gbasis.integrals.momentum", "momentum_integral"), ("gbasis.integrals.angular_momentum", "angular_momentum_integral"),
    ("gbasis.integrals.point_charge", "point_charge_integral"),
    ("gbasis.integrals.nuclear_electron_attraction", "nuclear_electron_attraction_integral"),
    ("gbasis.integrals.electron_repulsion", "electron_repulsion_integral"),
    ("gbasis.evals.eval", "evaluate_basis"), ("gbasis.evals.eval_deriv", "evaluate_deriv_basis"),
    ("gbasis.evals.density", "evaluate_density"), ("gbasis.evals.density", "evaluate_deriv_density"),
    ("gbasis.evals.density", "evaluate_density_gradient"), ("gbasis.evals.density", "evaluate_density_laplacian"),
    ("gbasis.evals.density", "evaluate_density_hessian"), ("gbasis.evals.density", "evaluate_posdef_kinetic_energy_density"),
    ("gbasis.evals.density", "evaluate_general_kinetic_energy_density"), ("gbasis.evals.density", "evaluate_deriv_reduced_density_matrix"),
    ("gbasis.evals.density", "evaluate_density_using_evaluated_orbs"),
    ("gbasis.evals.stress_tensor", "evaluate_stress_tensor"), ("gbasis.evals.stress_tensor", "evaluate_ehrenfest_force"),
    ("gbasis.evals.stress_tensor", "evaluate_ehrenfest_hessian"),
    ("gbasis.evals.electrostatic_potential", "electrostatic_potential"),
    ("gbasis.parsers", "parse_nwchem"), ("gbasis.parsers", "parse_gbs"), ("gbasis.parsers", "make_contractions"),
    ("gbasis.spherical", "generate_transformation"),
]

STATE = {"depth": 0, "test": None, "traces": {}, "ids": {}, "results": {}, "keep": []}


def _vid(kind, blob):
    key = hashlib.sha1(kind.encode() + b"|" + blob).hexdigest()
    tab = STATE["ids"]
    if key not in tab:
        tab[key] = len(tab) + 1
    return tab[key]


def _objects(x, path, out):
    """Collect (name, object) for every mutable thing reachable from an argument."""
    from gbasis.contractions import GeneralizedContractionShell
    if isinstance(x, np.ndarray):
        out.append((path, x))
    elif isinstance(x, GeneralizedContractionShell):
        out.append((path, x))
    elif isinstance(x, (list, tuple)):
        out.append((path, x))       # tuples too: their scalar entries (component labels, ...) are part of the request
        for i, y in enumerate(x):
            _objects(y, "%s[%d]" % (path, i), out)
    elif isinstance(x, dict):
        out.append((path, x))
        for k, y in x.items():
            _objects(y, "%s[%r]" % (path, k), out)


def _value(o):
    from gbasis.contractions import GeneralizedContractionShell
    if isinstance(o, np.ndarray):
        return _vid("nd", o.tobytes() + repr((o.shape, o.dtype.str)).encode())
    if isinstance(o, GeneralizedContractionShell):
        parts = [repr(o.angmom).encode(), np.asarray(o.coord).tobytes(), np.asarray(o.exps).tobytes(),
                 np.asarray(o.coeffs).tobytes(), repr(o.coord_type).encode(), np.asarray(o.norm_cont).tobytes()]
        return _vid("shell", b"|".join(parts))
    if isinstance(o, (list, tuple)):
        return _vid(type(o).__name__, repr([type(i).__name__ if isinstance(i, (np.ndarray, list, dict)) or hasattr(i, "norm_cont") else i for i in o]).encode())
    if isinstance(o, dict):
        return _vid("dict", repr(sorted(map(repr, o.keys()))).encode())
    return _vid("other", repr(o).encode())


def _result_id(f, key, out):
    lst = STATE["results"].setdefault((f, key), [])
    for rid, ref in lst:
        try:
            if isinstance(ref, str) or isinstance(out, str):
                if isinstance(ref, str) and isinstance(out, str) and ref == out:
                    return rid
            elif np.shape(ref) == np.shape(out) and np.allclose(np.asarray(ref, dtype=complex), np.asarray(out, dtype=complex),
                                                                rtol=1e-12, atol=1e-300, equal_nan=True):
                return rid
        except Exception:  # noqa: BLE001
            pass
    rid = len(lst) + 1
    lst.append((rid, out))
    return rid


def _wrap(name, fn):
    @functools.wraps(fn)
    def wrapper(*args, **kwargs):
        if STATE["depth"] > 0 or STATE["test"] is None:
            return fn(*args, **kwargs)
        objs = []
        for i, a in enumerate(args):
            _objects(a, "a%d" % i, objs)
        for k in sorted(kwargs):
            _objects(kwargs[k], "k_" + k, objs)
        scal = repr([a for a in args if isinstance(a, (int, float, str, bool, type(None)))]) + repr(
            sorted((k, v) for k, v in kwargs.items() if isinstance(v, (int, float, str, bool, type(None)))))
        pre = [_value(o) for _, o in objs]
        epre = _vid("err", repr(sorted(np.geterr().items())).encode())
        STATE["depth"] += 1
        try:
            out = fn(*args, **kwargs)
            res = out if isinstance(out, np.ndarray) else repr(type(out).__name__) + repr(out)[:2000]
            return out
        except BaseException as exc:
            res = "raised " + type(exc).__name__
            raise
        finally:
            STATE["depth"] -= 1
            post = [_value(o) for _, o in objs]
            epost = _vid("err", repr(sorted(np.geterr().items())).encode())
            key = (tuple(pre), scal)
            ev = {"f": name, "args": [[n, a, b] for (n, _), a, b in zip(objs, pre, post)] + [["scalars", _vid("s", scal.encode()), _vid("s", scal.encode())]],
                  "errpre": epre, "errpost": epost, "res": _result_id(name, key, res)}
            STATE["traces"].setdefault(STATE["test"], []).append(ev)
    return wrapper


def pytest_configure(config):
    for modname, attr in PUBLIC:
        try:
            mod = importlib.import_module(modname)
        except Exception:  # noqa: BLE001
            continue
        fn = getattr(mod, attr, None)
        if fn is None:
            continue
        w = _wrap(attr, fn)
        setattr(mod, attr, w)
    # modules that imported the names before the wrapping see the originals; re-bind the known ones
    rebind = [("gbasis.evals.density", "evaluate_basis", "gbasis.evals.eval"), ("gbasis.evals.density", "evaluate_deriv_basis", "gbasis.evals.eval_deriv"),
              ("gbasis.integrals.nuclear_electron_attraction", "point_charge_integral", "gbasis.integrals.point_charge"),
              ("gbasis.evals.electrostatic_potential", "point_charge_integral", "gbasis.integrals.point_charge")]
    for user, name, src in rebind:
        try:
            setattr(importlib.import_module(user), name, getattr(importlib.import_module(src), name))
        except Exception:  # noqa: BLE001
            pass


def pytest_runtest_setup(item):
    STATE["test"] = item.nodeid
    STATE["results"] = {}


def pytest_runtest_teardown(item):
    STATE["test"] = None


def pytest_sessionfinish(session, exitstatus):
    out = os.environ.get("GBV_TRACE_OUT")
    if out:
        with open(out, "w") as fh:
            json.dump({"traces": STATE["traces"]}, fh)
