"""Access to the implementation under test: gbasis imported from the /repo working tree (never an
installed copy), shells built from the JSON case descriptions the specification side produces."""
import importlib
import os
import sys
import warnings

REPO = os.environ.get("GBV_REPO", "/repo")

for _v in ("OMP_NUM_THREADS", "OPENBLAS_NUM_THREADS", "MKL_NUM_THREADS"):
    os.environ.setdefault(_v, "1")  # reduction order must not depend on the thread count

warnings.filterwarnings("ignore", category=SyntaxWarning)
if sys.path[0] != REPO:
    sys.path.insert(0, REPO)

import numpy as np  # noqa: E402

from .exact import dyf  # noqa: E402


def mod(name):
    m = importlib.import_module(name)
    f = os.path.abspath(m.__file__)
    if not f.startswith(os.path.abspath(REPO) + os.sep):
        raise RuntimeError("gbasis was imported from %s, not from %s" % (f, REPO))
    return m


def Shell():
    return mod("gbasis.contractions").GeneralizedContractionShell


def make_shell(sh, cls=None):
    """sh: {"l", "center": [dy]*3, "exps": [dy]*K, "coeffs": [[dy]*M]*K, "type"} -> shell object."""
    cls = cls or Shell()
    coord = np.array([dyf(c) for c in sh["center"]], dtype=float)
    exps = np.array([dyf(e) for e in sh["exps"]], dtype=float)
    coeffs = np.array([[dyf(c) for c in row] for row in sh["coeffs"]], dtype=float)
    return cls(int(sh["l"]), coord, coeffs, exps, sh.get("type", "cartesian"))


def make_basis(basis, cls=None):
    return [make_shell(s, cls) for s in basis]


def points(pts):
    return np.array([[dyf(c) for c in p] for p in pts], dtype=float).reshape(-1, 3)
