"""The evaluator: turns the exact rational tables of the specification into the floating-point
numbers gbasis should return.

Every integral of the separable one-electron family is
      sum over primitive pairs  d_i d_j * w_ij * comp_norm(a) comp_norm(b) * R_ij[a, b]
with  R_ij rational (products of the 1-D reduced tables of Gauss.tla) and the transcendental weight
      w_ij = N(alpha_i, l_a) N(alpha_j, l_b) (pi/p)^(3/2) exp(-mu |A-B|^2),
      N(alpha, l) = (2 alpha/pi)^(3/4) (4 alpha)^(l/2).
The evaluator contains no recursion and no chemistry beyond these two lines; which table entry
belongs to which component comes from the component triples, whose order is fixed by Phi.tla /
Layout.tla and cross-checked with TLC in every run.
"""
from fractions import Fraction as Fr
import itertools
import math

import mpmath
import numpy as np

from . import exact
from .exact import dy

mpmath.mp.dps = 40


def rad_norm(alpha, l):
    a = mpmath.mpf(alpha.numerator) / alpha.denominator
    return (2 * a / mpmath.pi) ** mpmath.mpf("0.75") * (4 * a) ** (mpmath.mpf(l) / 2)


def comp_norm(comp):
    return 1.0 / math.sqrt(exact.dfm1(2 * comp[0]) * exact.dfm1(2 * comp[1]) * exact.dfm1(2 * comp[2]))


def shell_exact(sh):
    """Parse a JSON shell into exact quantities."""
    return {
        "l": sh["l"],
        "A": [dy(c) for c in sh["center"]],
        "exps": [dy(e) for e in sh["exps"]],
        "coeffs": [[dy(c) for c in row] for row in sh["coeffs"]],
        "comps": [tuple(c) for c in sh.get("cart_order") or exact.cart_components(sh["l"])],
    }


def pair_weight(a, la, b, lb, ab2):
    p = a + b
    mu = a * b / p
    x = mu * ab2
    w = rad_norm(a, la) * rad_norm(b, lb) * (mpmath.pi / (mpmath.mpf(p.numerator) / p.denominator)) ** 1.5
    w *= mpmath.exp(-(mpmath.mpf(x.numerator) / x.denominator))
    return float(w)


def _f(tab):
    return np.array([[[float(v) for v in row] for row in rows] for rows in tab])


def sep_terms(kind, orders=None):
    """Each output element is a list of (coefficient, (per-axis (table, order))) products."""
    M, D = "m", "d"
    if kind == "overlap":
        return [[(1.0, ((M, 0), (M, 0), (M, 0)))]]
    if kind == "moment":
        return [[(1.0, tuple((M, o) for o in od))] for od in orders]
    if kind == "kinetic":
        t = []
        for x in range(3):
            t.append((-0.5, tuple((D, 2) if y == x else (M, 0) for y in range(3))))
        return [t]
    if kind == "grad":
        return [[(1.0, tuple((D, 1) if y == x else (M, 0) for y in range(3)))] for x in range(3)]
    if kind == "angmom":
        out = []
        for k in range(3):
            n1, n2 = (k + 1) % 3, (k + 2) % 3

            def term(y, z):
                return tuple((M, 1) if w == y else (D, 1) if w == z else (M, 0) for w in range(3))
            out.append([(1.0, term(n1, n2)), (-1.0, term(n2, n1))])
        return out
    raise ValueError(kind)


def sep_tables(s1, s2, i, j, origin, km, dm):
    """Exact tables for primitive pair (i, j): per axis (mom[k][jb][ia], dif[m][jb][ia])."""
    out = []
    for x in range(3):
        q = exact.Axis(s1["exps"][i], s2["exps"][j], s1["A"][x], s2["A"][x], origin[x])
        mom = exact.moment_table(q, s1["l"], s2["l"], km)
        dif = exact.diff_table(q, s1["l"], s2["l"], dm) if dm > 0 else None
        out.append((mom, dif))
    return out


def raw_block_sep(sh1, sh2, kind, origin=None, orders=None, tables_hook=None):
    """UN-normalised contracted block in Cartesian components, shape (M1, L1, M2, L2[, n_out]) and the
    matching sum of absolute terms."""
    s1, s2 = shell_exact(sh1), shell_exact(sh2)
    origin = [dy(c) for c in origin] if origin is not None else [Fr(0)] * 3
    terms = sep_terms(kind, orders)
    km = max([o for el in terms for (_, axes) in el for (t, o) in axes if t == "m"] + [0])
    dm = max([o for el in terms for (_, axes) in el for (t, o) in axes if t == "d"] + [0])
    c1 = np.array(s1["comps"])
    c2 = np.array(s2["comps"])
    n1 = np.array([comp_norm(c) for c in s1["comps"]])
    n2 = np.array([comp_norm(c) for c in s2["comps"]])
    ab2 = sum((a - b) ** 2 for a, b in zip(s1["A"], s2["A"]))
    K1, K2 = len(s1["exps"]), len(s2["exps"])
    M1, M2 = len(s1["coeffs"][0]), len(s2["coeffs"][0])
    d1 = np.array([[float(c) for c in row] for row in s1["coeffs"]])  # (K1, M1)
    d2 = np.array([[float(c) for c in row] for row in s2["coeffs"]])
    nout = len(terms)
    prim = np.zeros((K1, K2, len(c1), len(c2), nout))
    primabs = np.zeros_like(prim)
    for i in range(K1):
        for j in range(K2):
            tabs = sep_tables(s1, s2, i, j, origin, km, dm)
            if tables_hook is not None:
                tables_hook(i, j, tabs)
            ft = [(_f(mom), _f(dif) if dif is not None else None) for mom, dif in tabs]
            w = pair_weight(s1["exps"][i], s1["l"], s2["exps"][j], s2["l"], ab2)
            for e, el in enumerate(terms):
                for coef, axes in el:
                    prod = np.ones((len(c1), len(c2)))
                    for x, (t, o) in enumerate(axes):
                        tab = ft[x][0] if t == "m" else ft[x][1]
                        prod = prod * tab[o][c2[None, :, x], c1[:, None, x]]
                    prim[i, j, :, :, e] += coef * w * prod
                    primabs[i, j, :, :, e] += abs(coef) * w * np.abs(prod)
    prim *= (n1[:, None] * n2[None, :])[None, None, :, :, None]
    primabs *= (n1[:, None] * n2[None, :])[None, None, :, :, None]
    raw = np.einsum("im,jn,ijabe->manbe", d1, d2, prim)
    rawabs = np.einsum("im,jn,ijabe->manbe", np.abs(d1), np.abs(d2), primabs)
    if kind in ("overlap", "kinetic"):
        raw, rawabs = raw[..., 0], rawabs[..., 0]
    return raw, rawabs


def contraction_norm(sh):
    """norm[m, a] = 1/sqrt(<phi_ma|phi_ma>) for the un-normalised contraction: the definition of a
    normalised contracted function (Phi.tla)."""
    raw, _ = raw_block_sep(sh, sh, "overlap")
    M, L = raw.shape[0], raw.shape[1]
    diag = np.array([[raw[m, a, m, a] for a in range(L)] for m in range(M)])
    return 1.0 / np.sqrt(diag)


# =============================================================================================== Coulomb
def boys(mmax, T):
    """F_m(T) = Int_0^1 t^(2m) exp(-T t^2) dt for m = 0..mmax (mpmath, 40 digits) as floats."""
    T = mpmath.mpf(T.numerator) / T.denominator if isinstance(T, Fr) else mpmath.mpf(T)
    out = []
    for m in range(mmax + 1):
        if T == 0:
            out.append(1.0 / (2 * m + 1))
        elif T < 1e-6:
            # series: sum_k (-T)^k / (k! (2m+2k+1))
            v = sum((-T) ** k / (mpmath.factorial(k) * (2 * m + 2 * k + 1)) for k in range(12))
            out.append(float(v))
        else:
            out.append(float(mpmath.gammainc(m + mpmath.mpf("0.5"), 0, T) / (2 * T ** (m + mpmath.mpf("0.5")))))
    return np.array(out)


def _polytab(tab, deg):
    """nested lists of polynomials (lists of Fractions) -> float array [..., deg+1]."""
    def rec(t):
        if t and isinstance(t[0], Fr) or (t and isinstance(t[0], int)):
            v = [float(x) for x in t] + [0.0] * (deg + 1 - len(t))
            return v[:deg + 1]
        return [rec(x) for x in t]
    return np.array(rec(tab))


def _conv(a, b, deg):
    out = np.zeros(a.shape[:-1] + (deg + 1,))
    for n in range(deg + 1):
        for k in range(n + 1):
            out[..., n] += a[..., k] * b[..., n - k]
    return out


def _mpf(x):
    return mpmath.mpf(x.numerator) / x.denominator


def raw_block_1e(sh1, sh2, charges, tables_hook=None):
    """<a| -q/|r-R| |b> for un-normalised contractions: (M1, L1, M2, L2, Ncharges) and abs-sums.
    charges: list of (position triple of Fractions, charge float)."""
    s1, s2 = shell_exact(sh1), shell_exact(sh2)
    la, lb = s1["l"], s2["l"]
    D = la + lb
    c1, c2 = np.array(s1["comps"]), np.array(s2["comps"])
    n1 = np.array([comp_norm(c) for c in s1["comps"]])
    n2 = np.array([comp_norm(c) for c in s2["comps"]])
    ab2 = sum((a - b) ** 2 for a, b in zip(s1["A"], s2["A"]))
    K1, K2 = len(s1["exps"]), len(s2["exps"])
    d1 = np.array([[float(c) for c in row] for row in s1["coeffs"]])
    d2 = np.array([[float(c) for c in row] for row in s2["coeffs"]])
    N = len(charges)
    prim = np.zeros((K1, K2, len(c1), len(c2), N))
    primabs = np.zeros_like(prim)
    for i in range(K1):
        for j in range(K2):
            a, b = s1["exps"][i], s2["exps"][j]
            p = a + b
            w = float(rad_norm(a, la) * rad_norm(b, lb) * 2 * mpmath.pi / _mpf(p) * mpmath.exp(-_mpf(a * b / p * ab2)))
            for n, (R, qch) in enumerate(charges):
                tabs = []
                T = Fr(0)
                for x in range(3):
                    q = exact.Axis(a, b, s1["A"][x], s2["A"][x], R[x])
                    tabs.append(exact.rys1d_table(q, la, lb))
                    T += p * q.pc ** 2
                if tables_hook is not None:
                    tables_hook(i, j, n, tabs)
                ft = [_polytab(t, D) for t in tabs]          # [jb, ia, deg]
                F = boys(D, T)
                px = ft[0][c2[None, :, 0], c1[:, None, 0]]
                py = ft[1][c2[None, :, 1], c1[:, None, 1]]
                pz = ft[2][c2[None, :, 2], c1[:, None, 2]]
                poly = _conv(_conv(px, py, D), pz, D)
                polyabs = _conv(_conv(np.abs(px), np.abs(py), D), np.abs(pz), D)
                prim[i, j, :, :, n] = -qch * w * (poly @ F)
                primabs[i, j, :, :, n] = abs(qch) * w * (polyabs @ F)
    nn = (n1[:, None] * n2[None, :])[None, None, :, :, None]
    raw = np.einsum("im,jn,ijabe->manbe", d1, d2, prim * nn)
    rawabs = np.einsum("im,jn,ijabe->manbe", np.abs(d1), np.abs(d2), primabs * nn)
    return raw, rawabs


def raw_block_2e(shs, tables_hook=None, mp=False):
    """(ab|cd) in chemists' order for un-normalised contractions:
    (M1, L1, M2, L2, M3, L3, M4, L4) and abs-sums."""
    S = [shell_exact(s) for s in shs]
    ls = [s["l"] for s in S]
    D = sum(ls)
    comps = [np.array(s["comps"]) for s in S]
    cn = [np.array([comp_norm(c) for c in s["comps"]]) for s in S]
    Ks = [len(s["exps"]) for s in S]
    ds = [np.array([[float(c) for c in row] for row in s["coeffs"]]) for s in S]
    ab2 = sum((a - b) ** 2 for a, b in zip(S[0]["A"], S[1]["A"]))
    cd2 = sum((a - b) ** 2 for a, b in zip(S[2]["A"], S[3]["A"]))
    Ls = [len(c) for c in comps]
    prim = np.zeros(Ks + Ls)
    primabs = np.zeros_like(prim)
    g = [comps[n][:, :] for n in range(4)]
    for i, j, k, l in itertools.product(*[range(K) for K in Ks]):
        a, b, c, d = S[0]["exps"][i], S[1]["exps"][j], S[2]["exps"][k], S[3]["exps"][l]
        p, q = a + b, c + d
        w = rad_norm(a, ls[0]) * rad_norm(b, ls[1]) * rad_norm(c, ls[2]) * rad_norm(d, ls[3])
        w *= 2 * mpmath.pi ** mpmath.mpf("2.5") / (_mpf(p) * _mpf(q) * mpmath.sqrt(_mpf(p + q)))
        w *= mpmath.exp(-_mpf(a * b / p * ab2)) * mpmath.exp(-_mpf(c * d / q * cd2))
        w = float(w)
        tabs = []
        T = Fr(0)
        for x in range(3):
            ax = exact.Axis2(a, b, c, d, S[0]["A"][x], S[1]["A"][x], S[2]["A"][x], S[3]["A"][x])
            tabs.append(exact.rys2d_table(ax, *ls))
            T += p * q / (p + q) * ax.pq ** 2
        if tables_hook is not None:
            tables_hook((i, j, k, l), tabs)
        ft = [_polytab(t, D) for t in tabs]      # [i, j, k, l, deg]
        F = boys(D, T)

        def gather(x):
            return ft[x][g[0][:, None, None, None, x], g[1][None, :, None, None, x],
                         g[2][None, None, :, None, x], g[3][None, None, None, :, x]]
        px, py, pz = gather(0), gather(1), gather(2)
        poly = _conv(_conv(px, py, D), pz, D)
        polyabs = _conv(_conv(np.abs(px), np.abs(py), D), np.abs(pz), D)
        prim[i, j, k, l] = w * (poly @ F)
        primabs[i, j, k, l] = w * (polyabs @ F)
    nn = (cn[0][:, None, None, None] * cn[1][None, :, None, None] * cn[2][None, None, :, None] * cn[3][None, None, None, :])
    raw = np.einsum("im,jn,ko,lp,ijklabcd->manbocpd", ds[0], ds[1], ds[2], ds[3], prim * nn)
    rawabs = np.einsum("im,jn,ko,lp,ijklabcd->manbocpd", np.abs(ds[0]), np.abs(ds[1]), np.abs(ds[2]), np.abs(ds[3]),
                       primabs * nn)
    return raw, rawabs
