"""A small reader for TLA+ values as TLC prints them (state dumps `-dump`, simulation trace files
`-simulate file=...`): integers, strings, booleans, <<tuples>>, {sets}, [records], (k :> v @@ ...) functions,
a..b intervals.  States are conjunctions `/\\ var = value`."""
import re

_TOK = re.compile(r'\s*(<<|>>|\|->|:>|@@|\.\.|[\[\]{}(),]|"(?:[^"\\]|\\.)*"|-?\d+|[A-Za-z_][A-Za-z0-9_!]*)')


class Parser:
    def __init__(self, text):
        self.toks = _TOK.findall(text)
        self.i = 0

    def peek(self):
        return self.toks[self.i] if self.i < len(self.toks) else None

    def eat(self, t=None):
        tok = self.toks[self.i]
        if t is not None and tok != t:
            raise ValueError("expected %r, got %r at token %d" % (t, tok, self.i))
        self.i += 1
        return tok

    def value(self):
        v = self.atom()
        # function pairs:  a :> b @@ c :> d
        if self.peek() == ":>":
            d = {}
            k = v
            while True:
                self.eat(":>")
                d[_key(k)] = self.atom()
                if self.peek() == "@@":
                    self.eat()
                    k = self.atom()
                else:
                    break
            return d
        if self.peek() == "..":
            self.eat()
            hi = self.atom()
            return list(range(v, hi + 1))
        return v

    def atom(self):
        t = self.eat()
        if t == "<<":
            out = []
            while self.peek() != ">>":
                out.append(self.value())
                if self.peek() == ",":
                    self.eat()
            self.eat(">>")
            return out
        if t == "{":
            out = []
            while self.peek() != "}":
                out.append(self.value())
                if self.peek() == ",":
                    self.eat()
            self.eat("}")
            return {"__set__": out}
        if t == "[":
            d = {}
            while self.peek() != "]":
                k = self.eat()
                self.eat("|->")
                d[k] = self.value()
                if self.peek() == ",":
                    self.eat()
            self.eat("]")
            return d
        if t == "(":
            v = self.value()
            self.eat(")")
            return v
        if t.startswith('"'):
            return bytes(t[1:-1], "utf-8").decode("unicode_escape")
        if t == "TRUE":
            return True
        if t == "FALSE":
            return False
        if re.fullmatch(r"-?\d+", t):
            return int(t)
        return t  # model value / identifier


def _key(k):
    if isinstance(k, list):
        return tuple(_key(x) for x in k)
    if isinstance(k, dict):
        return tuple(sorted((a, _key(b)) for a, b in k.items()))
    return k


def parse_value(text):
    return Parser(text).value()


def parse_state(text):
    """'/\\ a = 1 /\\ b = <<2>>' -> {'a': 1, 'b': [2]}"""
    out = {}
    parts = re.split(r"(?:^|\n)\s*/\\ ", "\n" + text.strip())
    for p in parts:
        p = p.strip()
        if not p:
            continue
        m = re.match(r"([A-Za-z_][A-Za-z0-9_]*)\s*=\s*(.*)\Z", p, re.S)
        if m:
            out[m.group(1)] = parse_value(m.group(2))
    return out


def read_dump(path):
    """TLC -dump file: 'State N:' blocks."""
    with open(path) as fh:
        text = fh.read()
    blocks = re.split(r"State \d+:\s*\n", text)
    return [parse_state(b) for b in blocks if b.strip()]


def read_sim_trace(path):
    """One behaviour written by `-simulate file=...`: list of (action label, state dict)."""
    with open(path) as fh:
        text = fh.read()
    out = []
    for m in re.finditer(r"\\\* <([^>\n]*?)(?: line [^>]*)?>\s*\nSTATE_\d+ ==\s*\n(.*?)(?=\n\\\*|\n=+|\Z)", text, re.S):
        out.append((m.group(1).strip(), parse_state(m.group(2))))
    if not out:  # initial-state-only or different header
        for m in re.finditer(r"STATE_\d+ ==\s*\n(.*?)(?=\n\\\*|\nSTATE_|\n=+|\Z)", text, re.S):
            out.append(("", parse_state(m.group(1))))
    return out
