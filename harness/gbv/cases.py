"""Seeded generators of exactly representable (dyadic) inputs.  A dyadic is [mantissa, exponent]
(value = mantissa * 2**exponent); TLC receives the same pair, gbasis receives math.ldexp of it, so
both sides compute at bit-identical parameters."""
import math
import random


def dyadic(x, bits):
    """Round x to `bits` significant bits and return [mantissa, exponent]."""
    if x == 0:
        return [0, 0]
    m, e = math.frexp(x)
    mi = int(round(m * (1 << bits)))
    ee = e - bits
    while mi % 2 == 0 and mi != 0:
        mi //= 2
        ee += 1
    return [mi, ee]


def val(d):
    return math.ldexp(d[0], d[1])


def grid_coord(rng, span=2.0, frac_bits=None):
    """Coordinate in [-span, span]: a generic double with a 24-bit mantissa (so that the rounding errors of ordinary
    inputs occur: with short mantissas sums and products are exact and cancellation defects stay invisible), or a point of
    a binary grid if frac_bits is given (exactly representable distances)."""
    if frac_bits is None:
        return dyadic(rng.uniform(-span, span), 24)
    n = int(span * (1 << frac_bits))
    k = rng.randint(-n, n)
    return dyadic(k / (1 << frac_bits), 30) if k else [0, 0]


def center(rng, span=2.0, frac_bits=None):
    return [grid_coord(rng, span, frac_bits) for _ in range(3)]


def exponent(rng, lo, hi, bits):
    return dyadic(math.exp(rng.uniform(math.log(lo), math.log(hi))), bits)


def coeff(rng, bits=16):
    c = rng.uniform(0.1, 1.5) * rng.choice([1, 1, 1, -1])
    return dyadic(c, bits)


def exp_cap(l):
    """Upper end of the exponent range of published basis sets: 1e5 for s, a decade less per unit of l."""
    return 1.0e5 * 10.0 ** (-l)


def shell(rng, l, K=None, M=None, typ=None, cen=None, lo=0.02, hi=None, bits=24, span=2.0):
    K = K or rng.randint(1, 4)
    M = M or rng.randint(1, 3)
    typ = typ or rng.choice(["cartesian", "spherical"])
    hi = hi if hi is not None else exp_cap(l)
    exps = []
    while len(exps) < K:
        e = exponent(rng, lo, hi, bits)
        if e not in exps:
            exps.append(e)
    if K >= 2 and rng.random() < 0.08:
        exps[rng.randrange(1, K)] = list(exps[0])        # the same exponent listed twice (a split primitive): legal
    cen = cen if cen is not None else center(rng, span)
    coeffs = [[coeff(rng) for _ in range(M)] for _ in range(K)]
    if M >= 2 and rng.random() < 0.4:
        structure_coeffs(rng, coeffs)
    sh = {"l": l, "center": cen, "exps": exps, "coeffs": coeffs, "type": typ}
    if rng.random() < 0.2:
        tabulate(sh, rng.choice([16, 20, 24]))
    return sh


def tabulate(sh, digits_bits=20):
    """Rescale every coefficient column so that the contraction is normalised the way published tables are: to the printed
    digits only (self-overlap 1 +- 1e-5 .. 1e-8, not exactly 1).  Uses the closed form of the self-overlap of a contraction
    of normalised primitives, sum_ij c_i c_j (2 sqrt(a_i a_j) / (a_i + a_j))^(l + 3/2), the same for every component."""
    ex = [val(e) for e in sh["exps"]]
    p = sh["l"] + 1.5
    for m in range(len(sh["coeffs"][0])):
        c = [val(row[m]) for row in sh["coeffs"]]
        S = sum(ci * cj * (2 * math.sqrt(a * b) / (a + b)) ** p for ci, a in zip(c, ex) for cj, b in zip(c, ex))
        if not S > 1e-6:
            continue
        for k, row in enumerate(sh["coeffs"]):
            row[m] = dyadic(c[k] / math.sqrt(S), digits_bits) if c[k] else [0, 0]


def sibling(rng, sh, typ=None):
    """A DIFFERENT shell over the same primitives: same centre, angular momentum, exponents and number (>= 2) of segmented
    contractions, other coefficients -- a large general contraction stored as two shells.  `sh` gets M >= 2 if it had one."""
    K = len(sh["exps"])
    M = max(2, len(sh["coeffs"][0]))
    if len(sh["coeffs"][0]) < M:
        sh["coeffs"] = [[coeff(rng) for _ in range(M)] for _ in range(K)]
    return {"l": sh["l"], "center": [list(c) for c in sh["center"]], "exps": [list(e) for e in sh["exps"]],
            "coeffs": [[coeff(rng) for _ in range(M)] for _ in range(K)], "type": typ or sh["type"]}


def structure_coeffs(rng, coeffs):
    """Coefficient matrices as basis-set tables have them rather than dense random ones: exact zeros next to non-zero
    entries in a row (a segmented basis stored as one generalized shell), rows whose entries cancel exactly (plus / minus
    combinations of primitives), an all-zero row (a primitive no contraction uses).  Every column keeps a non-zero entry."""
    K, M = len(coeffs), len(coeffs[0])
    mode = rng.choice(["pad", "cancel", "both", "unused"])
    if mode in ("pad", "both"):
        for k in range(K):
            if rng.random() < 0.7:
                coeffs[k][rng.randrange(M)] = [0, 0]
    if mode in ("cancel", "both"):
        k = rng.randrange(K)
        j1, j2 = rng.sample(range(M), 2)
        c = coeff(rng)
        coeffs[k] = [[0, 0] for _ in range(M)]
        coeffs[k][j1], coeffs[k][j2] = c, [-c[0], c[1]]
    if mode == "unused" and K >= 2:
        coeffs[rng.randrange(K)] = [[0, 0] for _ in range(M)]
    for j in range(M):
        if all(coeffs[k][j][0] == 0 for k in range(K)):
            rows = [k for k in range(K) if any(c[0] for c in coeffs[k])] or list(range(K))
            coeffs[rng.choice(rows)][j] = coeff(rng)


def spec_shell(sh):
    """The part of a shell the specification needs (TLA+ record)."""
    return {"l": sh["l"], "M": len(sh["coeffs"][0]), "typ": sh["type"],
            "A": [list(c) for c in sh["center"]], "exps": [list(e) for e in sh["exps"]]}


def rng_for(seed, *tags):
    return random.Random("%d/%s" % (seed, "/".join(str(t) for t in tags)))


def far_origin(rng):
    """A frame origin tens of bohr away from the coordinate origin (exactly representable)."""
    return [dyadic(rng.choice([-1, 1]) * (rng.choice([24.0, 37.5, 52.25, 64.0, 96.5]) + rng.uniform(-0.5, 0.5)), 30) for _ in range(3)]


def add(c1, c2):
    from fractions import Fraction as Fr
    out = []
    for a, b in zip(c1, c2):
        v = Fr(a[0]) * Fr(2) ** a[1] + Fr(b[0]) * Fr(2) ** b[1]
        n, d = v.numerator, v.denominator
        e = 0
        while d > 1:
            d //= 2
            e -= 1
        if abs(n) >= 1 << 30:            # keep mantissas inside TLC's 32-bit integers (the rounded sum IS the coordinate)
            n, e = dyadic(float(v), 30)
        out.append([n, e])
    return out


def tiny_offset(rng):
    """A displacement of 1e-3 .. 1e-5 bohr per axis with a generic mantissa (some axes zero).  Generic, because with
    displacements on a coarse binary grid the rounding errors of expanded squares coincide and cancel."""
    out = []
    for _ in range(3):
        if rng.random() < 0.3:
            out.append([0, 0])
        else:
            out.append([rng.choice([-1, 1]) * rng.randrange(513, 1024, 2), -rng.randint(20, 26)])
    if not any(o[0] for o in out):
        out[rng.randrange(3)] = [777, -23]
    return out
