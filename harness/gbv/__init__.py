"""gbv -- harness binding the TLA+ specification in /verif/spec to theochem/gbasis in /repo."""
