"""Running TLC / SANY and reading what they report.

Every run gets its own scratch directory under /verif/build (never /tmp), holding the
generated MC_*/data modules, the cfg, TLC's metadir and any JSON files the specification
writes.  The hand-written modules stay in /verif/spec and are found through TLA-Library.
"""
import json
import os
import re
import shutil
import subprocess
import time
import uuid

VERIF = os.path.dirname(os.path.dirname(os.path.dirname(os.path.abspath(__file__))))
SPEC = os.path.join(VERIF, "spec")
BUILD = os.path.join(VERIF, "build")
JAR = "/opt/veriftools/tla/tla2tools.jar"
DEPS = "/opt/veriftools/tla/CommunityModules-deps.jar"

# 15-bit primes (products of two residues stay below 2**31).  The driver skips a prime that
# divides a denominator of the run.
PRIMES = [32749, 32719, 32717, 32713, 32707, 32693, 32687, 32653, 32647, 32633]


class MachineryError(Exception):
    """TLC crashed, timed out or printed something we cannot interpret (exit 2, never a verdict)."""


class TLCResult:
    def __init__(self):
        self.ok = False
        self.violated = None  # name of violated invariant / property
        self.states = 0
        self.distinct = 0
        self.depth = 0
        self.wall = 0.0
        self.out = ""
        self.dir = None
        self.coverage = {}

    def __repr__(self):
        return "TLCResult(ok=%s violated=%s states=%d distinct=%d depth=%d wall=%.1fs)" % (
            self.ok, self.violated, self.states, self.distinct, self.depth, self.wall)


def scratch(tag):
    d = os.path.join(BUILD, "%s_%s" % (tag, uuid.uuid4().hex[:8]))
    os.makedirs(d, exist_ok=True)
    return d


def cleanup(d):
    if d and d.startswith(BUILD) and os.environ.get("GBV_KEEP") != "1":
        shutil.rmtree(d, ignore_errors=True)


def tla_value(v):
    """Python value -> TLA+ literal (ints, strings, bools, lists/tuples as sequences, dicts as records,
    sets/frozensets as sets)."""
    if isinstance(v, bool):
        return "TRUE" if v else "FALSE"
    if isinstance(v, int):
        if abs(v) >= 1 << 31:
            raise MachineryError("integer %d does not fit TLC's 32-bit integers" % v)
        return str(v) if v >= 0 else "(%d)" % v
    if isinstance(v, str):
        return json.dumps(v)
    if isinstance(v, (list, tuple)):
        return "<<" + ", ".join(tla_value(x) for x in v) + ">>"
    if isinstance(v, (set, frozenset)):
        return "{" + ", ".join(tla_value(x) for x in sorted(v, key=repr)) + "}"
    if isinstance(v, dict):
        if not v:
            return "<<>>"
        return "[" + ", ".join("%s |-> %s" % (k, tla_value(x)) for k, x in v.items()) + "]"
    raise TypeError("cannot render %r as a TLA+ value" % (v,))


def write_module(d, name, body, extends=("Integers", "Sequences")):
    """Write a generated module (definitions only)."""
    path = os.path.join(d, name + ".tla")
    with open(path, "w") as fh:
        fh.write("---- MODULE %s ----\n" % name)
        if extends:
            fh.write("EXTENDS %s\n" % ", ".join(extends))
        else:
            fh.write("\n")
        fh.write(body)
        fh.write("\n====\n")
    return path


def run(d, module, cfg_text, workers=16, timeout=900, simulate=None, env=None, depth_first=False,
        coverage=False, check_deadlock=False, extra=()):
    """Run TLC on d/module.tla with the given cfg text.  Returns TLCResult."""
    cfg = os.path.join(d, module + ".cfg")
    with open(cfg, "w") as fh:
        fh.write(cfg_text)
    meta = os.path.join(d, "meta_" + uuid.uuid4().hex[:6])
    jopts = ["-Xss256m", "-DTLA-Library=" + SPEC] + os.environ.get(
        "GBV_JVM", "-XX:+UseSerialGC -Xms1g -Xmx6g").split()
    if depth_first:
        jopts.append("-Dtlc2.tool.queue.IStateQueue=StateDeque")
    cmd = ["java"] + jopts + ["-cp", JAR + ":" + DEPS, "tlc2.TLC", "-workers", str(workers),
                               "-metadir", meta, "-noGenerateSpecTE", "-config", cfg]
    if not check_deadlock:
        cmd.append("-deadlock")
    if coverage:
        cmd += ["-coverage", "1"]
    if simulate:
        cmd += ["-simulate", simulate]
    cmd += list(extra)
    cmd.append(os.path.join(d, module + ".tla"))
    e = dict(os.environ)
    e.pop("JAVA_TOOL_OPTIONS", None)
    if env:
        e.update(env)
    t0 = time.time()
    try:
        p = subprocess.run(cmd, cwd=d, env=e, stdout=subprocess.PIPE, stderr=subprocess.STDOUT,
                           timeout=timeout, text=True)
    except subprocess.TimeoutExpired as exc:
        subprocess.run(["pkill", "-f", meta], check=False)
        raise MachineryError("TLC timed out after %ss on %s" % (timeout, module)) from exc
    r = TLCResult()
    r.wall = time.time() - t0
    r.out = p.stdout
    r.dir = d
    shutil.rmtree(meta, ignore_errors=True)
    m = re.search(r"(\d[\d,]*) states generated, (\d[\d,]*) distinct states found", r.out)
    if m:
        r.states = int(m.group(1).replace(",", ""))
        r.distinct = int(m.group(2).replace(",", ""))
    m = re.search(r"depth of the complete state graph search is (\d+)", r.out)
    if m:
        r.depth = int(m.group(1))
    m = re.search(r"Invariant (\S+) is violated", r.out)
    if m:
        r.violated = m.group(1)
    m = re.search(r"Action property (\S+) is violated|Temporal properties were violated|"
                  r"property (\S+) (?:is|was) violated", r.out)
    if m and not r.violated:
        r.violated = m.group(1) or m.group(2) or "temporal"
    if "The postcondition" in r.out and "violated" in r.out or "Assumption" in r.out and "is false" in r.out:
        r.violated = r.violated or "postcondition/assumption"
    finished = ("Model checking completed. No error has been found." in r.out
                or (simulate and r.violated is None and "Error:" not in r.out))
    r.ok = bool(finished and r.violated is None)
    if not r.ok and r.violated is None:
        lines = r.out.splitlines()
        errs = [i for i, l in enumerate(lines) if l.startswith("Error:") or "error" in l.lower()[:40]]
        tail = "\n".join(l for i in errs[:4] for l in lines[i:i + 6]) + "\n...\n" + "\n".join(lines[-8:])
        raise MachineryError("TLC failed on %s (exit %s):\n%s" % (module, p.returncode, tail))
    return r


def tlaps(module, needs=(), subst=None, timeout=900):
    """Run tlapm on spec/<module>.tla (with the modules it extends copied next to it).  Returns (number of obligations
    proved or None, output).  `subst` = (old, new) edits the text first (negative controls)."""
    import re
    import shutil
    d = scratch("tlaps")
    try:
        for m in (module,) + tuple(needs):
            shutil.copy(os.path.join(SPEC, m + ".tla"), d)
        if subst:
            path = os.path.join(d, module + ".tla")
            with open(path) as fh:
                text = fh.read()
            if subst[0] not in text:
                raise MachineryError("negative control: %r not found in %s.tla" % (subst[0], module))
            with open(path, "w") as fh:
                fh.write(text.replace(subst[0], subst[1]))
        # the back-end provers work under time-outs of a few seconds each: on a loaded machine an obligation can time out
        # although it is provable, so a failed run is repeated with the time-outs stretched (proved obligations are kept in
        # the fingerprint cache of the scratch directory).  A negative control (subst) is run once, with generous time-outs.
        out = ""
        for stretch in ((6,) if subst else (2, 8, 24)):
            # tlapm in its own session: when it gives up on an obligation (or is killed) it can leave its back-end provers (z3,
            # zenon, isabelle) running; the whole process group is killed as soon as tlapm has returned
            import signal
            proc = subprocess.Popen(["tlapm", "--threads", "4", "--stretch", str(stretch), module + ".tla"], cwd=d, stdout=subprocess.PIPE,
                                    stderr=subprocess.STDOUT, text=True, start_new_session=True)
            try:
                out, _ = proc.communicate(timeout=timeout)
            except subprocess.TimeoutExpired:
                raise MachineryError("tlapm timed out on %s.tla" % module)
            finally:
                try:
                    os.killpg(proc.pid, signal.SIGKILL)
                except (ProcessLookupError, PermissionError):
                    pass
            m = re.search(r"All (\d+) obligations? proved", out)
            if m:
                return int(m.group(1)), out
        return None, out
    finally:
        cleanup(d)


def sany(path):
    lib = SPEC
    with open(path) as fh:
        if "TLAPS" in fh.read(2000):     # proof modules need TLAPS.tla (and only they: its library shadows other modules)
            lib = SPEC + os.pathsep + "/opt/veriftools/tlapm/lib/tlapm/stdlib"
    cmd = ["java", "-DTLA-Library=" + lib, "-cp", JAR + ":" + DEPS, "tla2sany.SANY", path]
    p = subprocess.run(cmd, cwd=os.path.dirname(path), stdout=subprocess.PIPE, stderr=subprocess.STDOUT,
                       text=True)
    ok = p.returncode == 0 and "error" not in p.stdout.lower().replace("errors: 0", "")
    return ok, p.stdout


def read_json_dir(d, prefix):
    """Read every d/<prefix>*.json the specification wrote (JsonSerialize), keyed by file stem."""
    out = {}
    for f in sorted(os.listdir(d)):
        if f.startswith(prefix) and f.endswith(".json"):
            with open(os.path.join(d, f)) as fh:
                out[f[:-5]] = json.load(fh)
    return out
