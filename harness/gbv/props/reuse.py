"""A basis set is a basis set however it was produced: built afresh, or obtained from existing shell objects through the
public setters, `assign_norm_cont()`, in-place changes of the caller's arrays, or by using one integral object twice.
These probes run a call on shells with such a history and compare it with the same call on freshly built shells of the
same values (code vs code; the fresh route is the one the exact oracle judges elsewhere in the same check).  They find
state that survives between uses: memo tables keyed by object identity or by part of the parameters, lazily cached
attributes that a setter does not reset, cached blocks that the in-place normalisation of the assembly scales again.
"""
import numpy as np


def _close(a, b, rtol):
    a, b = np.asarray(a), np.asarray(b)
    if a.shape != b.shape:
        return False, float("inf")
    if a.size == 0:
        return True, 0.0
    sc = max(float(np.abs(b).max()), 1e-300)
    d = float(np.abs(a - b).max())
    return (d <= rtol * sc + 1e-13) and not np.isnan(a).any(), d / sc


def _fresh(gb, shells):
    cls = gb.Shell()
    return [cls(int(s.angmom), np.array(s.coord, dtype=float), np.array(s.coeffs, dtype=float), np.array(s.exps, dtype=float),
                s.coord_type) for s in shells]


def second_use(gb, basis, call, violations, label, rtol=1e-10):
    """call(shells) -> array.  Returns the number of comparisons made."""
    n = 0

    def judge(got, want, what):
        nonlocal n
        n += 1
        ok, dev = _close(got, want, rtol)
        if not ok:
            violations.append({"check": label + " (history)", "message": "%s: %s differs from the result for freshly built shells with the same "
                               "values (max deviation %.3g of the largest element)" % (label, what, dev)})
        return ok

    shells = gb.make_basis(basis)
    a0 = call(shells)
    judge(call(shells), a0, "the second call on the same shell objects")
    # 1. new parameters through the public setters, then the documented refresh of the normalisation
    for k, s in enumerate(shells):
        e = np.array(s.exps, dtype=float) * 1.25
        e[0] *= 1.5
        c = np.array(s.coeffs, dtype=float)
        c[0] *= -0.75 if c.shape[0] > 1 else 1.5
        c[:, -1] *= 1.0 + 0.125 * (k + 1)
        s.exps = e
        s.coeffs = c
        s.assign_norm_cont()
    if not judge(call(shells), call(_fresh(gb, shells)), "the call after exps / coeffs were replaced through the setters and assign_norm_cont()"):
        return n
    # 2. the arrays the shells hold are changed in place (basis-set optimisation, finite differences), then refreshed
    for s in shells:
        s.coeffs[-1, :] *= 1.5
        s.coeffs[0, 0] += 0.0625
        s.exps[-1] *= 0.75
        s.assign_norm_cont()
    if not judge(call(shells), call(_fresh(gb, shells)), "the call after exps / coeffs were changed in place and assign_norm_cont()"):
        return n
    # 3. new shells built from the SAME array objects after another in-place change
    cls = gb.Shell()
    for s in shells:
        s.coeffs[0, :] *= 0.5
        s.exps[0] *= 1.125
    again = [cls(int(s.angmom), s.coord, s.coeffs, s.exps, s.coord_type) for s in shells]
    judge(call(again), call(_fresh(gb, again)), "the call on shells built from array objects that were used before and changed in place")
    return n


def instance_reuse(gb, basis, modname, clsname, violations, label, rtol=1e-12, **kw):
    """One integral object asked more than once (cartesian, mix, mix again, lincomb) against fresh objects."""
    cls = getattr(gb.mod(modname), clsname)
    shells = gb.make_basis(basis)
    types = [s.coord_type for s in shells]
    inst = cls(shells)
    n = 0

    def judge(got, want, what):
        nonlocal n
        n += 1
        ok, dev = _close(got, want, rtol)
        if not ok:
            violations.append({"check": label + " (object reuse)", "message": "%s: %s differs from the same request on a fresh %s object "
                               "(max deviation %.3g of the largest element)" % (label, what, clsname, dev)})
        return ok

    first = inst.construct_array_mix(types, **kw)
    if not judge(inst.construct_array_mix(types, **kw), first, "the second construct_array_mix of one object"):
        return n
    if not judge(inst.construct_array_cartesian(**kw), cls(gb.make_basis(basis)).construct_array_cartesian(**kw),
                 "construct_array_cartesian after construct_array_mix on one object"):
        return n
    judge(inst.construct_array_spherical(**kw), cls(gb.make_basis(basis)).construct_array_spherical(**kw),
          "construct_array_spherical after two other requests on one object")
    return n
