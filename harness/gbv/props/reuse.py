"""A basis set is a basis set however it was produced: built afresh, or obtained from existing shell objects through the
public setters, `assign_norm_cont()`, in-place changes of the caller's arrays, or by using one integral object twice.
These probes run a call on shells with such a history and compare it with the same call on freshly built shells of the
same values (code vs code; the fresh route is the one the exact oracle judges elsewhere in the same check).  They find
state that survives between uses: memo tables keyed by object identity or by part of the parameters, lazily cached
attributes that a setter does not reset, cached blocks that the in-place normalisation of the assembly scales again.
"""
import numpy as np


def _close(a, b, rtol):
    a, b = np.asarray(a), np.asarray(b)
    if a.shape != b.shape:
        return False, float("inf")
    if a.size == 0:
        return True, 0.0
    sc = max(float(np.abs(b).max()), 1e-300)
    d = float(np.abs(a - b).max())
    return (d <= rtol * sc + 1e-13) and not np.isnan(a).any(), d / sc


def _fresh(gb, shells):
    cls = gb.Shell()
    return [cls(int(s.angmom), np.array(s.coord, dtype=float), np.array(s.coeffs, dtype=float), np.array(s.exps, dtype=float),
                s.coord_type) for s in shells]


def second_use(gb, basis, call, violations, label, rtol=1e-10):
    """call(shells) -> array.  Returns the number of comparisons made."""
    n = 0

    def judge(got, want, what):
        nonlocal n
        n += 1
        ok, dev = _close(got, want, rtol)
        if not ok:
            violations.append({"check": label + " (history)", "message": "%s: %s differs from the result for freshly built shells with the same "
                               "values (max deviation %.3g of the largest element)" % (label, what, dev)})
        return ok

    shells = gb.make_basis(basis)
    a0 = call(shells)
    judge(call(shells), a0, "the second call on the same shell objects")
    # 1. new parameters through the public setters, then the documented refresh of the normalisation
    for k, s in enumerate(shells):
        e = np.array(s.exps, dtype=float) * 1.25
        e[0] *= 1.5
        c = np.array(s.coeffs, dtype=float)
        c[0] *= -0.75 if c.shape[0] > 1 else 1.5
        c[:, -1] *= 1.0 + 0.125 * (k + 1)
        s.exps = e
        s.coeffs = c
        s.assign_norm_cont()
    if not judge(call(shells), call(_fresh(gb, shells)), "the call after exps / coeffs were replaced through the setters and assign_norm_cont()"):
        return n
    # 2. the arrays the shells hold are changed in place (basis-set optimisation, finite differences), then refreshed
    for s in shells:
        s.coeffs[-1, :] *= 1.5
        s.coeffs[0, 0] += 0.0625
        s.exps[-1] *= 0.75
        s.assign_norm_cont()
    if not judge(call(shells), call(_fresh(gb, shells)), "the call after exps / coeffs were changed in place and assign_norm_cont()"):
        return n
    # 3. new shells built from the SAME array objects after another in-place change
    cls = gb.Shell()
    for s in shells:
        s.coeffs[0, :] *= 0.5
        s.exps[0] *= 1.125
    again = [cls(int(s.angmom), s.coord, s.coeffs, s.exps, s.coord_type) for s in shells]
    judge(call(again), call(_fresh(gb, again)), "the call on shells built from array objects that were used before and changed in place")
    return n


def neighbour_first(gb, basis, call):
    """Evaluate a NEIGHBOURING geometry first (first shell displaced by 5e-7 bohr, its exponents scaled by 1 + 5e-7: a
    finite-difference step) and discard the result.  The case itself is computed and judged afterwards: a memo whose key
    rounds coordinates or exponents hands the neighbour's integrals to the case, which then differ from the oracle."""
    shells = gb.make_basis(basis)
    s0 = shells[0]
    s0.coord = np.array(s0.coord, dtype=float) + np.array([2.0 ** -21, 0.0, -2.0 ** -22])
    s0.exps = np.array(s0.exps, dtype=float) * (1.0 + 2.0 ** -21)
    s0.assign_norm_cont()
    try:
        call(shells)
    except Exception:  # noqa: BLE001     judged on the case itself, not here
        pass


def results_kept(earlier, violations, label):
    """Arrays returned by earlier calls must not change when later calls are made (a result that is a view of an internal
    buffer or of a cache entry is overwritten by the next request)."""
    for what, arr, copy in earlier:
        if arr.shape != copy.shape or not np.array_equal(arr, copy, equal_nan=True):
            violations.append({"check": label + " (aliasing)", "message": "%s: the array returned by %s changed when a later request was made "
                               "(it shares memory with an internal buffer)" % (label, what)})
            return False
    return True


def instance_reuse(gb, basis, modname, clsname, violations, label, rtol=1e-12, kw2=None, **kw):
    """One integral object asked more than once (cartesian, mix, mix again, lincomb) against fresh objects."""
    cls = getattr(gb.mod(modname), clsname)
    shells = gb.make_basis(basis)
    types = [s.coord_type for s in shells]
    inst = cls(shells)
    n = 0

    def judge(got, want, what):
        nonlocal n
        n += 1
        ok, dev = _close(got, want, rtol)
        if not ok:
            violations.append({"check": label + " (object reuse)", "message": "%s: %s differs from the same request on a fresh %s object "
                               "(max deviation %.3g of the largest element)" % (label, what, clsname, dev)})
        return ok

    first = inst.construct_array_mix(types, **kw)
    held = [("the first construct_array_mix", first, first.copy())]
    second = inst.construct_array_mix(types, **kw)
    if not judge(second, held[0][2], "the second construct_array_mix of one object"):
        return n
    cart = inst.construct_array_cartesian(**kw)
    held.append(("construct_array_cartesian", cart, cart.copy()))
    if not judge(cart, cls(gb.make_basis(basis)).construct_array_cartesian(**kw),
                 "construct_array_cartesian after construct_array_mix on one object"):
        return n
    if kw2 is not None:
        cart2 = inst.construct_array_cartesian(**kw2)         # same shape, other arguments
        judge(cart2, cls(gb.make_basis(basis)).construct_array_cartesian(**kw2), "construct_array_cartesian with other arguments on one object")
    judge(inst.construct_array_spherical(**kw), cls(gb.make_basis(basis)).construct_array_spherical(**kw),
          "construct_array_spherical after other requests on one object")
    n += 1
    results_kept(held, violations, label)
    return n
