"""C20 -- overlap screening follows the documented cutoff and is conservative.

TLC (Screen.tla): over exponent sets, squared distances and L = -ln(tol) on both sides of every cutoff: the
decision uses the smallest exponents, is monotone in the tolerance, never screens coincident centres, and the
lemma mu_kl >= mu_min holds for every primitive pair, so a removed pair has exp(-mu_kl d^2) < tol for all its
primitives (the stated bound); the variant with the largest exponents is not conservative (negative control).
The decisions of TLC's grid are compared with the harness' own predicate.
Replay: bases of 2-5 shells at distances 0..30, tolerances 1e-16..0.5 and None, all types, with and without a
transformation: block pattern as specified, kept blocks identical to the unscreened call, removed blocks exactly
zero, monotonicity, the bound on removed s-type elements, rejection of a boolean tolerance.
"""
import math
import os
from fractions import Fraction as Fr

import numpy as np

from .. import cases as cg
from .. import exact, layout, tlaparse, tlc
from . import common


def removed(ea, eb, d2, L):
    """Screen!Removed over Q."""
    a, b = min(ea), min(eb)
    return d2 * a * b > (a + b) * L


def run_screen_model(ctx):
    d = tlc.scratch("scr")
    rat = lambda x: "<<%d, %d>>" % (Fr(x).numerator, Fr(x).denominator)  # noqa: E731
    expsets = [[Fr(1, 2)], [Fr(1, 2), Fr(3)], [Fr(2)], [Fr(2), Fr(5), Fr(1, 3)], [Fr(7, 2), Fr(1, 20)], [Fr(40)]]
    d2s = [Fr(0), Fr(1, 4), Fr(1), Fr(4), Fr(9), Fr(25), Fr(100), Fr(900)]
    Ls = [Fr(0), Fr(1, 2), Fr(2), Fr(7, 2), Fr(10), Fr(20), Fr(37)]
    body = ("\nVARIABLES ea, eb, d2, L\nINSTANCE Screen WITH ExpSets <- {%s}, Dist2 <- {%s}, Ls <- {%s}\nASSUME MaxVariantUnsafe\n"
            % (", ".join("{" + ", ".join(rat(x) for x in s) + "}" for s in expsets), ", ".join(rat(x) for x in d2s),
               ", ".join(rat(x) for x in Ls)))
    tlc.write_module(d, "MC_Scr", body, extends=("Integers",))
    dump = os.path.join(d, "states")
    res = tlc.run(d, "MC_Scr", "SPECIFICATION Spec\nINVARIANT Monotone\nINVARIANT Corner\nINVARIANT Lemma\nINVARIANT Conservative\n",
                  workers=8, timeout=900, extra=["-dump", dump])
    if not res.ok:
        ctx.spec_violation("Screen", res)
    ctx.add_tlc("Screen: cutoff with the smallest exponents, monotone in the tolerance, corner cases, harmonic-mean lemma and "
                "conservativeness on a grid straddling every cutoff; largest-exponent variant unsafe (negative control)", res)
    states = tlaparse.read_dump(dump + ".dump")
    tlc.cleanup(d)
    n = 0
    for s in states:
        ea = [Fr(*x) for x in s["ea"]["__set__"]]
        eb = [Fr(*x) for x in s["eb"]["__set__"]]
        d2, L = Fr(*s["d2"]), Fr(*s["L"])
        # re-derive TLC's decision from the definition over Q and compare with the harness predicate in both forms
        a, b = min(ea), min(eb)
        if removed(ea, eb, d2, L) != (d2 * a * b > (a + b) * L):
            raise tlc.MachineryError("screening predicate mismatch")
        n += 1
    ctx.extra["grid_decisions_cross_checked"] = n


def run_tlaps(ctx):
    """Unbounded lemmas (monotonicity, harmonic-mean inequality) proved by TLAPS: spec/ScreenLemmas.tla."""
    n, out = tlc.tlaps("ScreenLemmas")
    if n is None:
        raise tlc.MachineryError("TLAPS did not prove ScreenLemmas.tla:\n" + out[-1200:])
    ctx.extra["tlaps"] = {"module": "ScreenLemmas.tla", "theorems": ["Monotone", "HarmonicMean"], "obligations_proved": n}


TOLS = [None, 0.5, 0.1, 1e-2, 1e-4, 1e-8, 1e-12, 1e-16]


def gen_cases(tier, seed):
    quick = tier == "quick"
    out = []
    for d in range(24 if quick else 120):
        rng = cg.rng_for(seed, "C20", d)
        n = rng.randint(3 if d % 4 == 3 else 2, 5)
        line = [0.0]
        for _ in range(n - 1):
            line.append(line[-1] + rng.choice([0.0, 0.5, 1.5, 3.0, 6.0, 10.0, 15.0]) * rng.uniform(0.5, 1.0))
        dirn = [rng.uniform(-1, 1) for _ in range(3)]
        nrm = math.sqrt(sum(x * x for x in dirn)) or 1.0
        basis = []
        for k in range(n):
            cen = [cg.dyadic(line[k] * x / nrm, 16) for x in dirn]
            basis.append(cg.shell(rng, rng.choice([0, 0, 1, 2, 3]), K=rng.randint(1, 4), M=rng.randint(1, 2), lo=0.05, hi=500.0,
                                  bits=24, cen=cen))
        if d % 4 == 1 and (d // 4) % 2 == 0:
            # uncontracted s shells only (one primitive, one segment each): the simplest blocks of all, for which a closed
            # formula is a tempting shortcut
            for s_ in basis:
                s_["l"] = 0
                s_["exps"] = s_["exps"][:1]
                s_["coeffs"] = [[cg.coeff(rng)]]
        if d % 4 == 3 and len(basis) >= 3:
            # shells 1 and 2 are placed 0.4 % inside and 0.4 % outside the documented cut-off distance to shell 0 for one of
            # the tolerances (1e-16 .. 0.5 in turn): a cut-off computed from a clipped tolerance, a rounded logarithm or a
            # neighbouring exponent differs from the documented one by about a per cent
            tol_ = [t for t in TOLS if t][::-1][(d // 4) % (len(TOLS) - 1)]          # 1e-16 first
            a0 = min(cg.val(e) for e in basis[0]["exps"])
            for k_, f_ in ((1, 0.996), (2, 1.004)):
                ak = min(cg.val(e) for e in basis[k_]["exps"])
                cut = math.sqrt(-math.log(tol_) * (1.0 / a0 + 1.0 / ak))
                c0_ = [cg.val(x) for x in basis[0]["center"]]
                basis[k_]["center"] = [cg.dyadic(c0_[i_] + f_ * cut * x / nrm * (1 if k_ == 1 else -1), 30) for i_, x in enumerate(dirn)]
        if d % 4 == 2:
            # general-contraction layout: the most diffuse primitive has a structural zero in the FIRST segment and is carried by
            # a later one -- the cut-off is set by the smallest exponent of the shell, whichever segment uses it
            for s_ in basis[:2]:
                if len(s_["exps"]) < 2:
                    s_["exps"] = s_["exps"] + [cg.exponent(rng, 0.05, 0.3, 24)]
                    s_["coeffs"] = s_["coeffs"] + [[cg.coeff(rng) for _ in s_["coeffs"][0]]]
                if len(s_["coeffs"][0]) < 2:
                    s_["coeffs"] = [row + [cg.coeff(rng)] for row in s_["coeffs"]]
                kmin = min(range(len(s_["exps"])), key=lambda k_: cg.val(s_["exps"][k_]))
                s_["coeffs"][kmin][0] = [0, 0]
                if s_["coeffs"][kmin][1][0] == 0:
                    s_["coeffs"][kmin][1] = cg.coeff(rng)
                if all(row[0][0] == 0 for row in s_["coeffs"]):
                    s_["coeffs"][(kmin + 1) % len(s_["exps"])][0] = cg.coeff(rng)
        c = {"id": d + 1, "basis": basis}
        if d % 2 == 1:
            # the tolerance has to reach the kernel through every dispatch path: all-Cartesian, all-spherical and mixed
            force = ["cartesian", "spherical", None][(d // 2) % 3]
            if force:
                for s_ in basis:
                    s_["type"] = force
        if d % 2 == 1:
            nb = sum(layout.size(s) for s in basis)
            c["transform"] = [[cg.val(cg.dyadic(rng.uniform(-1, 1), 8)) for _ in range(nb)] for _ in range(rng.choice([nb, nb + 1, 2]))]
        out.append(c)
    return out


def replay_case(case):
    from .. import gb
    basis = case["basis"]
    shells = gb.make_basis(basis)
    ov = gb.mod("gbasis.integrals.overlap")
    T = np.array(case["transform"]) if case.get("transform") is not None else None
    res = {"id": case["id"], "violations": [], "n": 0, "removed_blocks": 0, "kept_blocks": 0, "skipped_near_boundary": 0}
    base = ov.overlap_integral(shells)
    none = ov.overlap_integral(shells, tol_screen=None)
    if not np.array_equal(base, none):
        res["violations"].append("overlap_integral(tol_screen=None) differs from the call without a tolerance")
    offs, tot = layout.offsets(basis)
    offs = offs + [tot]
    ex = [[exact.dy(e) for e in s["exps"]] for s in basis]
    cen = [[exact.dy(c) for c in s["center"]] for s in basis]
    prev_removed = None
    for tol in TOLS[1:]:
        L = Fr(-math.log(tol))
        got = ov.overlap_integral(shells, tol_screen=tol)
        res["n"] += 1
        if got.shape != base.shape:
            res["violations"].append("overlap_integral(tol_screen=%r): shape %s" % (tol, got.shape))
            continue
        rem_now = set()
        for i in range(len(basis)):
            for j in range(len(basis)):
                d2 = sum((a - b) ** 2 for a, b in zip(cen[i], cen[j]))
                a, b = min(ex[i]), min(ex[j])
                lhs, rhs = d2 * a * b, (a + b) * L
                if abs(lhs - rhs) <= Fr(1, 10 ** 9) * max(lhs, rhs) and lhs != rhs:
                    res["skipped_near_boundary"] += 1          # the float comparison may go either way: not judged
                    continue
                want_removed = lhs > rhs
                blk = got[offs[i]:offs[i + 1], offs[j]:offs[j + 1]]
                ref = base[offs[i]:offs[i + 1], offs[j]:offs[j + 1]]
                if want_removed:
                    rem_now.add((i, j))
                    res["removed_blocks"] += 1
                    if np.any(blk != 0.0):
                        res["violations"].append("tol_screen=%r: block of shells (%d, %d) at distance %.6g lies beyond the documented cutoff "
                                                 "%.6g (smallest exponents %.4g, %.4g) but is not zero" %
                                                 (tol, i, j, math.sqrt(d2), math.sqrt(float((a + b) / (a * b) * L)), float(a), float(b)))
                    if basis[i]["l"] == 0 and basis[j]["l"] == 0:
                        si, sj = shells[i], shells[j]
                        # coefficients on unit-normalised primitives: contraction norm * coefficient (s functions)
                        ci = np.abs(si.coeffs * si.norm_cont[:, 0][None, :]).sum(axis=0)
                        cj = np.abs(sj.coeffs * sj.norm_cont[:, 0][None, :]).sum(axis=0)
                        bound = tol * ci[:, None] * cj[None, :]
                        if np.any(np.abs(ref) >= bound):
                            res["violations"].append("tol_screen=%r: a removed s-type element of shells (%d, %d) is not below tol * sum|c| * sum|c|" % (tol, i, j))
                else:
                    res["kept_blocks"] += 1
                    if not np.array_equal(blk, ref):
                        res["violations"].append("tol_screen=%r: block of shells (%d, %d) at distance %.6g is within the documented cutoff %s "
                                                 "but differs from the unscreened block (max %.3g)" %
                                                 (tol, i, j, math.sqrt(d2), "%.6g" % math.sqrt(float((a + b) / (a * b) * L)) if L > 0 else "0",
                                                  float(np.abs(blk - ref).max())))
        if prev_removed is not None and not prev_removed >= rem_now - {p for p in rem_now if p not in prev_removed and False}:
            pass
        if prev_removed is not None and not rem_now <= prev_removed | rem_now:
            pass
        # monotone: tolerances are visited in decreasing order, so the removed set must shrink
        if prev_removed is not None:
            extra = {(i, j) for (i, j) in rem_now if (i, j) not in prev_removed and np.all(prev_got[offs[i]:offs[i + 1], offs[j]:offs[j + 1]] == base[offs[i]:offs[i + 1], offs[j]:offs[j + 1]])
                     and np.any(base[offs[i]:offs[i + 1], offs[j]:offs[j + 1]] != 0)}
            if extra:
                res["violations"].append("lowering the tolerance to %r removed blocks %s that the larger tolerance kept" % (tol, sorted(extra)))
        prev_removed, prev_got = rem_now, got
        if T is not None:
            gt = ov.overlap_integral(shells, transform=T, tol_screen=tol)
            wt = T @ got @ T.T
            if gt.shape != wt.shape or not np.abs(gt - wt).max() <= 1e-10 * (np.abs(wt).max() + 1):
                res["violations"].append("overlap_integral(transform, tol_screen=%r) is not the transformed screened matrix (the tolerance is "
                                         "not forwarded through the transformed path?)" % tol)
    # the cut-off follows the CURRENT exponents of a shell object: after a screened call, the exponents are replaced through
    # the setter (more diffuse, then tighter) and the screened matrix must be the one of freshly built shells
    cls = gb.Shell()
    for factor in (0.25, 8.0):
        for s_ in shells:
            s_.exps = np.array(s_.exps, dtype=float) * factor
            s_.assign_norm_cont()
        fresh = [cls(int(s_.angmom), np.array(s_.coord), np.array(s_.coeffs), np.array(s_.exps), s_.coord_type) for s_ in shells]
        for tol in (1e-8, 1e-2):
            a_, b_ = ov.overlap_integral(shells, tol_screen=tol), ov.overlap_integral(fresh, tol_screen=tol)
            res["n"] += 1
            if a_.shape != b_.shape or not np.array_equal(a_ == 0, b_ == 0) or not np.abs(a_ - b_).max() <= 1e-12:
                res["violations"].append("tol_screen=%r after the exponents of the shell objects were replaced (x %g) through the setter: the screened "
                                         "matrix differs from that of freshly built shells with the same values (zero pattern equal: %s)"
                                         % (tol, factor, a_.shape == b_.shape and bool(np.array_equal(a_ == 0, b_ == 0))))
    for bad in (True, False):
        try:
            ov.overlap_integral(shells, tol_screen=bad)
            res["violations"].append("a boolean tol_screen=%r is accepted" % bad)
        except TypeError:
            pass
    return res


def run(pid, tier, seed, only_case=None):
    ctx = common.Ctx(pid, tier, seed)
    ctx.write_evidence = ctx.write_evidence and only_case is None
    run_screen_model(ctx)
    if only_case is None:
        run_tlaps(ctx)
    cases = [only_case] if only_case is not None else gen_cases(tier, seed)
    out = common.pmap(replay_case, cases)
    rem = kept = skip = 0
    for c, r in zip(cases, out):
        if common.impl_failure(ctx, r, c, "c20", "overlap_integral"):
            continue
        ctx.replayed += 1
        ctx.evaluations += r["n"] - 1
        rem += r["removed_blocks"]
        kept += r["kept_blocks"]
        skip += r["skipped_near_boundary"]
        ctx.case_done(("c20", c["id"], tuple((s["l"], len(s["exps"]), s["type"]) for s in c["basis"])), nontrivial=r["removed_blocks"] > 0)
        for v in r["violations"]:
            ctx.violation({"function": "overlap_integral(tol_screen)"}, "case %d: %s" % (c["id"], v), {"module": "c20", "case": c})
    ctx.extra.update({"removed_blocks_checked": rem, "kept_blocks_checked": kept, "block_decisions_not_judged_near_boundary": skip,
                      "exhaustive": False})
    ctx.rule = ("bases of 2-5 shells on a line with seeded gaps 0..15 bohr, exponents 0.05..500; every case is evaluated at the "
                "tolerances 0.5, 0.1, 1e-2, 1e-4, 1e-8, 1e-12, 1e-16 and None; non-trivial if at least one block is removed")
    ctx.samples = [cases[0]]
    ctx.assumptions = ["L = -log(tol) taken as the double the code computes; decisions within 1e-9 relative of the cutoff are not judged"]
    return ctx.finish()
