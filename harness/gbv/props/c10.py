"""C10 -- the Cartesian->spherical matrix is the set of real regular solid harmonics.

TLC: MCSpherical (every l <= 10, every pair m, m'): the transcribed expansion formula of gbasis is harmonic,
proportional to the Legendre-form definition, orthonormal in the metric of unit-normalised Cartesians and has
a positive pole phase; it emits every matrix row (squares in F_P, exact signs).  Conventions: TLC enumerates
the reachable component conventions (order / sign / corrupted labels) as a state machine.
Replay: generate_transformation of /repo against the exact matrix for every l <= 10, for every enumerated
convention (honoured exactly or rejected), left = right^T, single spherical shell overlap = identity.
"""
import math
import os

import numpy as np

from .. import cases as cg
from .. import exact, tlaparse, tlc
from . import common

INVS = ["Harmonic_", "ImplIsDef", "DefHarmonic", "PolePositive", "UnitNorm", "Orthogonal", "OrdersOK"]


def run_mcspherical(ctx, prime, lmax, workers):
    d = tlc.scratch("sph")
    os.makedirs(os.path.join(d, "out"))
    tlc.write_module(d, "MC_Sph", "\nCONSTANTS P, LMax\nVARIABLES l, m, m2, done, verdict\nINSTANCE MCSpherical\n")
    cfg = "CONSTANT P = %d\nCONSTANT LMax = %d\nSPECIFICATION Spec\n%s" % (
        prime, lmax, "".join("INVARIANT %s\n" % i for i in INVS))
    res = tlc.run(d, "MC_Sph", cfg, workers=workers, timeout=1800, env={"GBV_OUT": os.path.join(d, "out")})
    if not res.ok:
        ctx.spec_violation("MCSpherical", res)
    ctx.add_tlc("MCSpherical(P=%d, l<=%d): harmonic, = Legendre definition, orthonormal, pole phase; all (l, m, m')"
                % (prime, lmax), res)
    rows = tlc.read_json_dir(os.path.join(d, "out"), "sph_")
    tlc.cleanup(d)
    return {(v["l"], v["row"]["m"]): v["row"]["entries"] for v in rows.values()}


def run_conventions(ctx, L, depth, gens, tag):
    d = tlc.scratch("conv")
    tlc.write_module(d, "MC_Conv", "\nCONSTANTS L, MaxDepth, GenCart, GenSwap, GenFlip, GenCorrupt\n"
                                    "VARIABLES cart, labels, depth\nINSTANCE Conventions\n")
    b = lambda x: "TRUE" if x else "FALSE"  # noqa: E731
    cfg = ("CONSTANTS L = %d\nMaxDepth = %d\nGenCart = %s\nGenSwap = %s\nGenFlip = %s\nGenCorrupt = %s\n"
           "SPECIFICATION Spec\nINVARIANT PermOK\nINVARIANT StartValid\nPROPERTY ValidKept\n"
           % (L, depth, b("cart" in gens), b("swap" in gens), b("flip" in gens), b("corrupt" in gens)))
    dump = os.path.join(d, "states")
    res = tlc.run(d, "MC_Conv", cfg, workers=4, timeout=1800, extra=["-dump", dump])
    if not res.ok:
        ctx.spec_violation("Conventions", res)
    ctx.add_tlc("Conventions(l=%d, depth<=%d, generators=%s)" % (L, depth, "+".join(sorted(gens))), res)
    states = tlaparse.read_dump(dump + ".dump")
    tlc.cleanup(d)
    seen, out = set(), []
    for s in states:
        key = (tuple(s["cart"]), tuple((x["neg"], x["kind"], x["m"]) for x in s["labels"]))
        if key not in seen:
            seen.add(key)
            out.append({"l": L, "cart": s["cart"], "labels": s["labels"], "tag": tag})
    return out


def label_str(x):
    return ("-" if x["neg"] else "") + x["kind"] + str(x["m"])


def is_valid(l, labels):
    full = {("c", m) for m in range(l + 1)} | {("s", m) for m in range(1, l + 1)}
    return len(labels) == 2 * l + 1 and {(x["kind"], x["m"]) for x in labels} == full


def replay_conv(cfgs):
    """Worker: a chunk of conventions."""
    from .. import gb
    gen = gb.mod("gbasis.spherical").generate_transformation
    out = []
    for c in cfgs:
        l = c["l"]
        comps = exact.cart_components(l)
        order = np.array([comps[i - 1] for i in c["cart"]])
        labs = tuple(label_str(x) for x in c["labels"])
        valid = is_valid(l, c["labels"])
        v = None
        dev = 0.0
        try:
            left = gen(l, order, labs, "left")
            right = gen(l, order, labs, "right")
            if not valid:
                v = "invalid convention %r accepted" % (labs,)
            else:
                want = exact.transform_float(l, [tuple(x) for x in order], labs)
                dev = float(np.abs(left - want).max())
                if left.shape != want.shape or not dev <= 1e-10:
                    v = "convention %r / Cartesian order %r not honoured: max deviation %.3g" % (labs, c["cart"], dev)
                elif right.shape != want.T.shape or not np.abs(right - want.T).max() <= 1e-10:
                    v = "'right' form is not the transpose of the 'left' form for %r" % (labs,)
            if v is None and valid:
                # the returned matrices belong to the caller: scaling them in place must not change what the same request
                # returns afterwards (a result that is a view of a cache entry would)
                keep_l, keep_r = left.copy(), right.copy()
                left *= 3.0
                right += 1.0
                l2, r2 = gen(l, order, labs, "left"), gen(l, order, labs, "right")
                if l2.shape != keep_l.shape or not np.array_equal(l2, keep_l) or not np.array_equal(r2, keep_r):
                    v = "generate_transformation for %r answers differently after the caller changed an earlier result in place" % (labs,)
        except (ValueError, TypeError) as exc:
            if valid:
                v = "valid convention %r rejected: %r" % (labs, exc)
        except Exception as exc:  # noqa: BLE001
            if valid:
                v = "valid convention %r raised %r" % (labs, exc)
            # an invalid one that dies with another exception type is still rejected
        out.append((v, dev))
    return out


def replay_default(l):
    from .. import gb
    gen = gb.mod("gbasis.spherical").generate_transformation
    S = gb.Shell()
    sh = S(l, np.zeros(3), np.ones(1), np.array([0.75]), "spherical")
    got = gen(l, sh.angmom_components_cart, sh.angmom_components_sph, "left")
    want = exact.transform_float(l)
    res = {"l": l, "v": [], "dev": float(np.abs(got - want).max()) if got.shape == want.shape else float("nan")}
    if list(map(tuple, sh.angmom_components_cart)) != exact.cart_components(l):
        res["v"].append("default Cartesian component order differs from the documented one for l=%d" % l)
    if list(sh.angmom_components_sph) != exact.sph_labels(l):
        res["v"].append("default pure-function order differs from the documented one for l=%d" % l)
    if not res["dev"] <= 1e-10:
        res["v"].append("generate_transformation(l=%d): max deviation from the solid harmonics %.3g" % (l, res["dev"]))
    ov = gb.mod("gbasis.integrals.overlap").overlap_integral([sh])
    d2 = float(np.abs(ov - np.eye(2 * l + 1)).max())
    res["ovdev"] = d2
    if not d2 <= 1e-8:
        res["v"].append("overlap of a single spherical shell l=%d is not the identity (max dev %.3g)" % (l, d2))
    return res


def run(pid, tier, seed, only_case=None):
    ctx = common.Ctx(pid, tier, seed)
    ctx.write_evidence = ctx.write_evidence and only_case is None
    quick = tier == "quick"
    primes = tlc.PRIMES[:2]
    if only_case is not None:
        r = replay_conv([only_case])[0]
        if r[0]:
            ctx.violation({"function": "generate_transformation"}, r[0], {"module": "c10", "case": only_case})
        ctx.replayed = 1
        return ctx.finish()
    jobs = [lambda: run_mcspherical(ctx, primes[0], 10, 6), lambda: run_mcspherical(ctx, primes[1], 10, 6)]
    plan = [(0, 2, {"swap", "flip", "corrupt", "cart"}, "all"),
            (1, 6, {"swap", "flip"}, "order+sign complete"), (1, 3, {"cart"}, "cart complete"),
            (1, 2 if quick else 3, {"corrupt"}, "malformed"),
            (2, 9, {"swap", "flip"}, "order+sign complete"), (2, 5, {"cart"}, "cart complete"),
            (2, 1 if quick else 2, {"corrupt"}, "malformed"),
            (3, 2 if quick else 3, {"cart"}, "cart depth-bounded"), (3, 2 if quick else 3, {"swap", "flip"}, "order+sign depth-bounded"),
            (3, 1, {"corrupt"}, "malformed"),
            (4, 1 if quick else 2, {"cart", "swap", "flip"}, "depth-bounded"),
            (5, 1, {"cart", "swap", "flip", "corrupt"}, "depth-bounded")]
    for (L, dep, gens, tag) in plan:
        jobs.append(lambda L=L, dep=dep, gens=gens, tag=tag: run_conventions(ctx, L, dep, gens, tag))
    results = common.run_models_parallel(jobs)
    rows = results[:2]
    # ---- fingerprint the harness' exact matrix against TLC's rows
    fp = 0
    for prime, rr in zip(primes, rows):
        for l in range(11):
            comps = exact.cart_components(l)
            for m in range(-l, l + 1):
                mine = exact.solid_harmonic_row(l, m)
                theirs = rr[(l, m)]
                for c, a in enumerate(comps):
                    s, sq = mine.get(a, (0, 0))
                    fp += 1
                    if [s, exact.modp(sq, prime)] != theirs[c]:
                        raise tlc.MachineryError("exact solid harmonic (l=%d, m=%d, %r) disagrees with TLC: %r vs %r"
                                                 % (l, m, a, (s, exact.modp(sq, prime)), theirs[c]))
    ctx.extra["matrix_entries_fingerprinted_against_TLC"] = fp
    # ---- replay: defaults
    for l_, r in enumerate(common.pmap(replay_default, range(11))):
        if common.impl_failure(ctx, r, {"id": "default l=%d" % l_, "l": l_}, "c10", "generate_transformation"):
            continue
        ctx.replayed += 1
        ctx.case_done(("default", r["l"]))
        ctx.note_dev("generate_transformation default", r["dev"])
        ctx.note_dev("single-shell overlap - identity", r["ovdev"])
        for v in r["v"]:
            ctx.violation({"function": "generate_transformation", "l": r["l"]}, v,
                          {"module": "c10", "case": {"l": r["l"], "cart": list(range(1, (r["l"] + 1) * (r["l"] + 2) // 2 + 1)),
                                                     "labels": [{"neg": False, "kind": x[0], "m": int(x[1:])} for x in exact.sph_labels(r["l"])]}})
    # ---- replay: conventions
    cfgs = []
    seen = set()
    for lst in results[2:]:
        for c in lst:
            key = (c["l"], tuple(c["cart"]), tuple((x["neg"], x["kind"], x["m"]) for x in c["labels"]))
            if key not in seen:
                seen.add(key)
                cfgs.append(c)
    chunks = [cfgs[i::64] for i in range(64)]
    nvalid = 0
    for chunk, res in zip(chunks, common.pmap(replay_conv, chunks)):
        if isinstance(res, common.ImplFailure):
            raise tlc.MachineryError("convention replay failed outside its own exception handling: " + res.msg)
        for c, (v, dev) in zip(chunk, res):
            ctx.replayed += 1
            valid = is_valid(c["l"], c["labels"])
            nvalid += valid
            ctx.case_done(("conv", c["l"], tuple(c["cart"]), tuple(label_str(x) for x in c["labels"])))
            ctx.note_dev("convention honoured", dev)
            if v:
                ctx.violation({"function": "generate_transformation", "l": c["l"], "valid": valid}, v,
                              {"module": "c10", "case": c})
    ctx.extra["conventions_replayed"] = len(cfgs)
    ctx.extra["valid_conventions"] = nvalid
    ctx.extra["invalid_conventions_that_must_be_rejected"] = len(cfgs) - nvalid
    ctx.extra["exhaustive"] = True
    ctx.extra["exhaustive_note"] = ("every l <= 10 and every (m, m'); every order/sign pattern of the pure functions for "
                                    "l <= 2 and every Cartesian order for l <= 2; depth-bounded above")
    ctx.rule = ("TLC enumerates (l, m, m') for l <= 10 and the reachable conventions of the Conventions machine; a convention "
                "is distinct by (l, Cartesian permutation, label sequence); all are non-trivial except l = 0")
    ctx.samples = cfgs[:2] + cfgs[-2:]
    ctx.assumptions = ["TLC evaluates the TLA+ text faithfully; identities in F_P for two primes stand for rational identities",
                       "signs of matrix entries are computed by TLC in true integer arithmetic (they fit in 32 bits for l <= 10)"]
    return ctx.finish()
