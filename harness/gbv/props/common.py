"""Shared driver pieces: context, evidence, violations / known findings, parallel replay, TLC runs."""
import hashlib
import json
import multiprocessing as mp
import os
import sys
import time
import traceback

from .. import tlc

VERIF = tlc.VERIF
EVIDENCE = os.path.join(VERIF, "evidence")
REPLAYS = os.path.join(VERIF, "replays")
KNOWN = os.path.join(VERIF, "known_findings.json")
NPROC = int(os.environ.get("GBV_NPROC", "16"))


def load_known():
    if not os.path.exists(KNOWN):
        return []
    with open(KNOWN) as fh:
        return json.load(fh)["findings"]


class Ctx:
    def __init__(self, pid, tier, seed, level="model_checking"):
        self.pid, self.tier, self.seed, self.level = pid, tier, seed, level
        self.t0 = time.time()
        self.states = 0
        self.transitions = 0
        self.tlc_runs = []
        self.evaluations = 0
        self.distinct = set()
        self.replayed = 0
        self.samples = []
        self.violations = []      # (key, message, replay path)
        self.known_hits = []
        self.assumptions = []
        self.rule = ""
        self.extra = {}
        self.max_dev = {}
        self.known = [k for k in load_known() if k.get("property") == pid and k.get("status") == "known"]
        self.quick = tier == "quick"
        self.write_evidence = os.environ.get("GBV_NO_EVIDENCE") != "1"

    # ---------------------------------------------------------------- TLC bookkeeping
    def add_tlc(self, name, res):
        self.states += res.distinct
        self.transitions += res.states
        self.tlc_runs.append({"model": name, "states_generated": res.states, "distinct_states": res.distinct,
                              "depth": res.depth, "wall_s": round(res.wall, 1)})

    def spec_violation(self, name, res):
        """TLC found the specification itself inconsistent: machinery failure, never a verdict on the code."""
        tail = "\n".join(res.out.splitlines()[-60:])
        raise tlc.MachineryError("TLC reports %s violated in model %s:\n%s" % (res.violated, name, tail))

    # ---------------------------------------------------------------- verdicts
    def note_dev(self, what, dev):
        self.max_dev[what] = max(self.max_dev.get(what, 0.0), float(dev))

    def case_done(self, signature, nontrivial=True):
        self.evaluations += 1
        if nontrivial:
            self.distinct.add(signature)

    def violation(self, key, message, replay):
        """key: dict identifying the failing input / call site (matched against known findings)."""
        for k in self.known:
            if all(key.get(f) == v for f, v in k["match"].items()):
                if k["id"] not in [h[0] for h in self.known_hits]:
                    self.known_hits.append((k["id"], k["what"]))
                return False
        rdir = REPLAYS if self.write_evidence or os.environ.get("GBV_NO_EVIDENCE") != "1" else os.path.join(tlc.BUILD, "replays_scratch")
        os.makedirs(os.path.join(rdir, self.pid), exist_ok=True)
        blob = json.dumps(replay, sort_keys=True)
        path = os.path.join(rdir, self.pid, hashlib.sha1(blob.encode()).hexdigest()[:12] + ".json")
        with open(path, "w") as fh:
            json.dump({"property": self.pid, "key": key, "message": message, "replay": replay}, fh, indent=1)
        self.violations.append((key, message, path))
        return True

    # ---------------------------------------------------------------- evidence
    def finish(self):
        wall = time.time() - self.t0
        cov = {
            "evaluations": self.evaluations,
            "distinct_nontrivial": len(self.distinct),
            "rule": self.rule,
            "samples": self.samples[:6] if self.samples else [],
            "states": self.states,
            "transitions": self.transitions,
            "traces_validated_against_impl": self.replayed,
            "tlc_runs": self.tlc_runs,
            "max_deviation_observed": {k: float("%.3g" % v) for k, v in self.max_dev.items()},
            "known_findings_reported": [h[0] for h in self.known_hits],
        }
        cov.update(self.extra)
        ev = {"property_id": self.pid, "tier": self.tier, "seed": self.seed, "level": self.level,
              "coverage": cov, "assumptions": self.assumptions, "wall_s": round(wall, 1),
              "violations": len(self.violations)}
        if self.write_evidence:
            os.makedirs(EVIDENCE, exist_ok=True)
            with open(os.path.join(EVIDENCE, self.pid + ".json"), "w") as fh:
                json.dump(ev, fh, indent=1, default=str)
        for kid, what in self.known_hits:
            print("KNOWN-FINDING: property=%s %s %s" % (self.pid, kid, what))
        for key, message, path in self.violations[:20]:
            print("VIOLATION property=%s replay=%s" % (self.pid, path))
            print("  " + message)
        if len(self.violations) > 20:
            print("  ... and %d more violations" % (len(self.violations) - 20))
        print("%s %s: %d TLC states, %d cases replayed into gbasis, %d violations, %.0fs" % (
            self.pid, self.tier, self.states, self.replayed, len(self.violations), wall))
        return 1 if self.violations else 0


# -------------------------------------------------------------------- parallel replay
class ImplFailure:
    """A valid call into gbasis raised: a verdict on the code (violation), not a machinery failure."""

    def __init__(self, msg):
        self.msg = msg


def _call(args):
    fn, item = args
    try:
        return ("ok", fn(item))
    except Exception as exc:  # noqa: BLE001
        repo = os.path.abspath(os.environ.get("GBV_REPO", "/repo")) + os.sep
        frames = traceback.extract_tb(exc.__traceback__)
        inrepo = [f for f in frames if os.path.abspath(f.filename).startswith(repo)]
        if inrepo:
            f = inrepo[-1]
            return ("impl", "a valid call raised %s inside gbasis (%s:%d in %s): %s" % (
                type(exc).__name__, os.path.relpath(f.filename, repo), f.lineno, f.name, exc))
        return ("err", traceback.format_exc())


def pmap(fn, items, nproc=None):
    """Run fn over items in forked worker processes (fn must be a module-level function)."""
    items = list(items)
    # at least two items per worker process where possible: state that leaks from one call of the library into the
    # next (module-level caches, numpy settings) can only show if a process serves more than one case
    nproc = min(nproc or NPROC, max(1, (len(items) + 1) // 2))
    if nproc == 1:
        res = [_call((fn, it)) for it in items]
    else:
        # ProcessPoolExecutor, not multiprocessing.Pool: when a worker process dies (the kernel's OOM killer on a loaded
        # machine) Pool.map waits forever; the executor raises BrokenProcessPool and the check ends as a machinery failure
        from concurrent.futures import ProcessPoolExecutor
        from concurrent.futures.process import BrokenProcessPool
        try:
            with ProcessPoolExecutor(max_workers=nproc, mp_context=mp.get_context("fork")) as pool:
                res = list(pool.map(_call, [(fn, it) for it in items], chunksize=1))
        except BrokenProcessPool as exc:
            raise tlc.MachineryError("a replay worker process died (killed by the system?): %s" % exc)
    out = []
    for kind, r in res:
        if kind == "err":
            raise tlc.MachineryError("replay worker failed:\n" + r)
        out.append(ImplFailure(r) if kind == "impl" else r)
    return out


def impl_failure(ctx, r, case, module, function="(call into gbasis)"):
    """Record an ImplFailure as a violation; returns True if r was one."""
    if not isinstance(r, ImplFailure):
        return False
    ctx.replayed += 1
    cc = {k: v for k, v in case.items() if k != "tlc"} if isinstance(case, dict) else case
    ctx.violation({"function": function, "exception": True}, "case %s: %s" % (
        case.get("id") if isinstance(case, dict) else "?", r.msg), {"module": module, "case": cc})
    return True


def run_models_parallel(jobs):
    """jobs: list of callables each running one TLC model; executed in threads (TLC is a subprocess)."""
    from concurrent.futures import ThreadPoolExecutor
    with ThreadPoolExecutor(max_workers=len(jobs)) as ex:
        futs = [ex.submit(j) for j in jobs]
        return [f.result() for f in futs]


def above_noise(d, floor=1e-12):
    """Part of an absolute deviation that exceeds rounding noise of O(1)-normalised quantities.

    Code-vs-code comparisons are judged relative to the largest element of the expected array; when that array vanishes
    by symmetry (one-centre momentum between shells with |dl| != 1, odd moments, ...) both sides hold rounding noise only
    and the ratio of two noises says nothing.  Differences below ``floor`` are therefore not judged.
    """
    return max(float(d) - floor, 0.0)
