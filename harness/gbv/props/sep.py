"""C01 C02 C07 C08 -- the separable one-electron integrals (overlap, kinetic energy, multipole moments,
momentum, angular momentum).

Flow of one run:
  1. seeded cases (every ordered pair of angular momenta enumerated; whole bases; second basis sets);
  2. TLC: (a) MC_OSMoment / MC_DiffOp -- the as-implemented recursion tables against the L1 closed forms
     on the rational grid G1, exhaustively; (b) ReplaySep -- the L1 definitions evaluated at the exact
     dyadic parameters of every case, in F_P for two primes, plus the Layout of every basis;
  3. per case (16 worker processes): the harness' exact rational tables must equal TLC's residues
     (machinery check), the evaluator turns them into expected doubles, gbasis from /repo is called and
     every element is compared under the tolerance stated by the property.
"""
import json
import os

import numpy as np

from .. import cases as cg
from .. import exact, layout, sev, tlc
from . import common

OSM_GRID = {
    "quick": dict(exps=[(1, 2), (3, 1), (7, 2)], cens=[((0, 1), (1, 1)), ((1, 2), (-1, 1)), ((0, 1), (0, 1))],
                  origs=[(2, 1), (-1, 2)],
                  shapes=[(5, 4, 2), (0, 0, 0), (1, 0, 0), (0, 1, 0), (0, 0, 1), (2, 1, 1), (0, 3, 2)]),
    "thorough": dict(exps=[(1, 2), (1, 1), (3, 1), (7, 2)],
                     cens=[((0, 1), (0, 1)), ((0, 1), (1, 1)), ((0, 1), (-3, 2)), ((1, 2), (-1, 1))],
                     origs=[(0, 1), (2, 1), (-1, 2)],
                     shapes=[(7, 5, 4), (0, 0, 0), (1, 0, 0), (0, 1, 0), (0, 0, 1), (2, 1, 1), (1, 2, 2),
                             (0, 3, 2), (3, 0, 2)]),
}


# ------------------------------------------------------------------------------------------ TLC models
def grid_module(d, name, inst, g, extra_vars):
    rat = lambda q: "<<%d, %d>>" % q  # noqa: E731
    body = """
CONSTANT P
E == INSTANCE Exact
G == INSTANCE Gauss
Exps  == {%s}
Cens  == {%s}
Origs == {%s}
MCGrid == {G!Derive([a |-> E!FromRat(ea), b |-> E!FromRat(eb), A |-> E!FromRat(c[1]),
                     B |-> E!FromRat(c[2]), C |-> E!FromRat(o)]) : ea \\in Exps, eb \\in Exps, c \\in Cens, o \\in Origs}
MCShapes == {%s}
VARIABLES %s
INSTANCE %s WITH Grid <- MCGrid, Shapes <- MCShapes
""" % (", ".join(rat(q) for q in g["exps"]),
       ", ".join("<<%s, %s>>" % (rat(c[0]), rat(c[1])) for c in g["cens"]),
       ", ".join(rat(q) for q in g["origs"]),
       ", ".join("<<%d, %d, %d>>" % s for s in g["shapes"]), extra_vars, inst)
    tlc.write_module(d, name, body)


def run_osmoment(ctx, prime, workers=16):
    d = tlc.scratch("osm")
    try:
        grid_module(d, "MC_OSMoment", "OSMoment", OSM_GRID[ctx.tier], "q, shape, tab, pc, fresh")
        cfg = ("CONSTANT P = %d\nSPECIFICATION Spec\nINVARIANT FreshEqDef\nINVARIANT DoneComplete\n"
               "INVARIANT TableFormIsDef\nPROPERTY WriteOnce\n" % prime)
        res = tlc.run(d, "MC_OSMoment", cfg, workers=workers, timeout=3000)
        if not res.ok:
            ctx.spec_violation("MC_OSMoment", res)
        ctx.add_tlc("MC_OSMoment(P=%d): as-implemented Obara-Saika table = Gauss!Moment1D on grid G1" % prime, res)
    finally:
        tlc.cleanup(d)


def run_diffop(ctx, prime, workers=16):
    d = tlc.scratch("dif")
    try:
        g = dict(OSM_GRID[ctx.tier])
        g["shapes"] = [(4, 3, 2), (0, 0, 1), (1, 0, 2), (0, 2, 1)] if ctx.quick else \
            [(5, 5, 2), (0, 0, 1), (1, 0, 2), (0, 2, 1), (3, 1, 3), (2, 2, 4)]
        g["origs"] = [(0, 1)]
        grid_module(d, "MC_DiffOp", "DiffOp", g, "q, shape, tab, pc, fresh")
        cfg = "CONSTANT P = %d\nSPECIFICATION Spec\nINVARIANT FreshEqDef\nINVARIANT DoneCropEqDef\nINVARIANT TableFormIsDef\n" % prime
        res = tlc.run(d, "MC_DiffOp", cfg, workers=workers, timeout=3000)
        if not res.ok:
            ctx.spec_violation("MC_DiffOp", res)
        ctx.add_tlc("MC_DiffOp(P=%d): as-implemented padded derivative recursion = Gauss!Diff1D on grid G1" % prime, res)
    finally:
        tlc.cleanup(d)


def spec_case(case):
    shells = case["basis"] + case.get("basis2", [])
    n = len(shells)
    pairs = [[i + 1, j + 1] for i in range(n) for j in range(i, n)]
    if case.get("fp_pairs") is not None:
        pairs = [[i + 1, j + 1] for (i, j) in case["fp_pairs"]]
    return {"id": case["id"], "shells": [cg.spec_shell(s) for s in shells], "pairs": pairs,
            "origin": case.get("origin") or [[0, 0]] * 3, "km": case.get("km", 0), "dm": case.get("dm", 0),
            "fpk": case.get("fpk", 4)}


def run_replaysep(ctx, cases, prime, workers=8):
    d = tlc.scratch("rsep")
    os.makedirs(os.path.join(d, "out"), exist_ok=True)
    sc = [spec_case(c) for c in cases]
    tlc.write_module(d, "MC_ReplaySep",
                     "\nCONSTANT P\nVARIABLES cid, pid, done\nMCCases == %s\nINSTANCE ReplaySep WITH Cases <- MCCases\n"
                     % tlc.tla_value(sc))
    cfg = "CONSTANT P = %d\nSPECIFICATION Spec\nINVARIANT LayoutOK\n" % prime
    res = tlc.run(d, "MC_ReplaySep", cfg, workers=workers, timeout=3000, env={"GBV_OUT": os.path.join(d, "out")})
    if not res.ok:
        tlc.cleanup(d)
        ctx.spec_violation("MC_ReplaySep", res)
    ctx.add_tlc("ReplaySep(P=%d): L1 definitions evaluated at the dyadic parameters of %d cases" % (prime, len(cases)), res)
    out = tlc.read_json_dir(os.path.join(d, "out"), "sep_")
    tlc.cleanup(d)
    want = sum(len(c["pairs"]) + 1 for c in sc)
    if len(out) != want:
        raise tlc.MachineryError("ReplaySep wrote %d of %d files" % (len(out), want))
    byid = {}
    for v in out.values():
        e = byid.setdefault(v["id"], {"tabs": {}})
        if v["pair"] == 0:
            e["layout"], e["comps"] = v["layout"], v["comps"]
        else:
            e["tabs"][v["pair"] - 1] = v["tabs"]
    return byid


def pick_primes(cases, n=2):
    """Primes that divide none of the denominators a + b of the run (Inv(0) would be meaningless)."""
    sums = set()
    for c in cases:
        ex = [exact.dy(e) for s in c["basis"] + c.get("basis2", []) for e in s["exps"]]
        for a in ex:
            for b in ex:
                sums.add((a + b).numerator)
                sums.add(a.numerator)
    good = [p for p in tlc.PRIMES if all(x % p for x in sums)]
    if len(good) < n:
        raise tlc.MachineryError("not enough usable primes for this run")
    return good[:n]


# ------------------------------------------------------------------------------------------ oracle
class Fingerprint:
    """Compares the harness' exact tables with TLC's residues (both primes)."""

    def __init__(self, case):
        self.case = case
        self.checked = 0
        self.bad = []

    def pair_hook(self, pair_index, k1, k2):
        tl = self.case.get("tlc") or {}

        def hook(i, j, tabs):
            for prime, data in tl.items():
                p = int(prime)
                try:
                    t = data["tabs"][pair_index][i][j]
                except (IndexError, KeyError):
                    return
                for x in range(3):
                    mom, dif = tabs[x]
                    for name, mine in (("mom", mom), ("dif", dif)):
                        if mine is None:
                            continue
                        theirs = t[x][name]
                        for a in range(min(len(mine), len(theirs))):
                            for b in range(len(mine[a])):
                                for c in range(len(mine[a][b])):
                                    self.checked += 1
                                    if exact.modp(mine[a][b][c], p) != theirs[a][b][c]:
                                        self.bad.append((p, k1, k2, i, j, x, name, a, b, c))
        return hook


def oracle(case, what, fp=None):
    """Expected array for `what` over (basis, basis2 or basis) and its abs-sum."""
    b1 = case["basis"]
    b2 = case.get("basis2")
    allsh = b1 + (b2 or [])
    n = len(allsh)
    pair_index = {}
    sc = spec_case(case)
    for idx, pr in enumerate(sc["pairs"]):
        pair_index[(pr[0] - 1, pr[1] - 1)] = idx
    norms = [sev.contraction_norm(s) for s in allsh]
    kind = {"overlap": "overlap", "kinetic": "kinetic", "moment": "moment", "momentum": "grad",
            "angmom": "angmom"}[what]

    def blk(ks):
        k1, k2 = ks
        hook = None
        if fp is not None and (k1, k2) in pair_index:
            hook = fp.pair_hook(pair_index[(k1, k2)], k1, k2)
        return sev.raw_block_sep(allsh[k1], allsh[k2], kind, origin=case.get("origin"),
                                 orders=case.get("orders"), tables_hook=hook)

    full, fullabs = layout.assemble([allsh, allsh], blk, [norms, norms])
    return full, fullabs, norms


def compare(ctx_v, name, got, want, tol, case, extra=None):
    """Element-wise |got - want| <= tol (tol array or scalar).  Returns max ratio dev/tol; appends violations."""
    got = np.asarray(got)
    if got.shape != want.shape:
        ctx_v.append({"check": name, "message": "shape %s, expected %s" % (got.shape, want.shape)})
        return 0.0
    dev = np.abs(got - want)
    tol = np.broadcast_to(np.asarray(tol, dtype=float), dev.shape)
    bad = ~(dev <= tol)  # also catches nan
    if bad.any():
        idx = np.unravel_index(np.argmax(np.where(bad, dev / np.maximum(tol, 1e-300), 0)), dev.shape)
        ctx_v.append({"check": name, "index": [int(i) for i in idx], "got": complex(got[idx]).__repr__(),
                      "expected": complex(want[idx]).__repr__(), "tolerance": float(tol[idx]),
                      "n_bad": int(bad.sum()), "message": "%s: element %s is %r, specification value %r (tolerance %.3g); %d elements differ"
                      % (name, tuple(int(i) for i in idx), got[idx], want[idx], tol[idx], int(bad.sum()))})
    return float(dev.max()) if dev.size else 0.0


def replay_case(case):
    """Worker: oracle + gbasis + comparison for one case.  Returns a result dict."""
    from .. import gb
    pid = case["pid"]
    what = case["what"]
    fp = Fingerprint(case)
    res = {"id": case["id"], "violations": [], "dev": {}, "fp_checked": 0, "fp_bad": []}
    full, fullabs, norms = oracle(case, what, fp)
    res["fp_checked"], res["fp_bad"] = fp.checked, fp.bad[:5]
    b1 = case["basis"]
    b2 = case.get("basis2")
    n1 = sum(layout.size(s) for s in b1)
    # layout cross-check against TLC's Layout!Positions
    for prime, data in (case.get("tlc") or {}).items():
        mine = [[k + 1, m + 1, c + 1] for (k, m, c) in layout.positions(b1 + (b2 or []))]
        if data["layout"] != mine:
            res["fp_bad"].append(("layout", prime))
        for k, sh in enumerate(b1 + (b2 or [])):
            if [list(c) for c in exact.cart_components(sh["l"])] != data["comps"][k]:
                res["fp_bad"].append(("comps", prime, k))
    V = res["violations"]
    shells1 = gb.make_basis(b1)
    shells2 = gb.make_basis(b2) if b2 else None
    T = np.array(case["transform"]) if case.get("transform") is not None else None
    want = full[:n1, :n1]
    wantabs = fullabs[:n1, :n1]

    def tr2(a):  # apply T to both basis indices
        if T is None:
            return a
        return np.einsum("ia,jb,ab...->ij...", T, T, a)

    def tr2abs(a):
        if T is None:
            return a
        return np.einsum("ia,jb,ab...->ij...", np.abs(T), np.abs(T), a)

    if case["kind"] == "basis" and case["id"] % 2 == 0:
        from . import reuse
        fn = {"overlap": ("gbasis.integrals.overlap", "overlap_integral"), "kinetic": ("gbasis.integrals.kinetic_energy", "kinetic_energy_integral"),
              "moment": ("gbasis.integrals.moment", "moment_integral"), "momentum": ("gbasis.integrals.momentum", "momentum_integral"),
              "angmom": ("gbasis.integrals.angular_momentum", "angular_momentum_integral")}[what]
        f0 = getattr(gb.mod(fn[0]), fn[1])
        if what == "moment":
            reuse.neighbour_first(gb, b1, lambda sh: f0(sh, np.array([exact.dyf(c) for c in case["origin"]]), np.array(case["orders"], dtype=int).reshape(-1, 3)))
        else:
            reuse.neighbour_first(gb, b1, f0)
    if what == "overlap":
        f = gb.mod("gbasis.integrals.overlap").overlap_integral
        got = f(shells1, transform=T) if T is not None else f(shells1)
        res["dev"]["overlap"] = compare(V, "overlap_integral", got, tr2(want), 1e-8 * (1 if T is None else np.maximum(tr2abs(np.ones_like(want)), 1)), case)
        if T is None:
            res["dev"]["diag"] = compare(V, "overlap diagonal = 1", np.diag(got), np.ones(n1), 1e-8, case)
        if b2:
            g2 = gb.mod("gbasis.integrals.overlap_asymm").overlap_integral_asymmetric(shells1, shells2)
            res["dev"]["asym"] = compare(V, "overlap_integral_asymmetric = off-diagonal block of the union",
                                         g2, full[:n1, n1:], 1e-8, case)
            u = f(shells1 + shells2)
            res["dev"]["union"] = compare(V, "overlap_integral(union)", u, full, 1e-8, case)
            res["dev"]["asym_vs_union"] = compare(V, "asymmetric overlap vs union block (code vs code)",
                                                  g2, u[:n1, n1:], 1e-8, case)
        if case.get("raw"):
            cls = gb.mod("gbasis.integrals.overlap").Overlap
            for (k1, k2) in case["raw"]:
                raw, rawabs = sev.raw_block_sep(b1[k1], b1[k2], "overlap")
                g = cls.construct_array_contraction(shells1[k1], shells1[k2])
                # judged on the scale the property names: after normalisation, absolute 1e-8
                nn = norms[k1][:, :, None, None] * norms[k2][None, None, :, :]
                # the code's block is normalised with the shells' OWN norm_cont: the scale of an un-normalised block is a
                # convention (an exponent-independent factor in the primitive norm is absorbed by the renormalisation)
                nc = shells1[k1].norm_cont[:, :, None, None] * shells1[k2].norm_cont[None, None, :, :]
                res["dev"]["raw"] = max(res["dev"].get("raw", 0), compare(
                    V, "Overlap.construct_array_contraction(%d,%d) (normalised)" % (k1, k2), g * nc if g.shape == raw.shape else g,
                    raw * nn, 1e-8, case))
    elif what == "kinetic":
        f = gb.mod("gbasis.integrals.kinetic_energy").kinetic_energy_integral
        got = f(shells1, transform=T) if T is not None else f(shells1)
        w = tr2(want)
        dg = np.sqrt(np.abs(np.diag(w)))
        tol = 1e-8 * dg[:, None] * dg[None, :]
        res["dev"]["kinetic"] = compare(V, "kinetic_energy_integral", got, w, tol, case)
    elif what == "moment":
        f = gb.mod("gbasis.integrals.moment").moment_integral
        org = np.array([exact.dyf(c) for c in case["origin"]])
        orders = np.array(case["orders"], dtype=int).reshape(-1, 3)
        got = f(shells1, org, orders, transform=T) if T is not None else f(shells1, org, orders)
        # floor: 1e-11 of the NATURAL scale of each requested moment -- the largest element of the moment with every odd order
        # raised to the next even one.  (The largest element of the array itself is no scale: shells on one centre with the
        # origin on it have ALL odd moments equal to zero by parity, and what an implementation returns there is the
        # rounding of P - C ~ 1e-14 at coordinates ~100 bohr times <x^2 ...> -- found by the seed sweep, C07 seed 1 case 71.)
        even = [[o + (o % 2) for o in od] for od in case["orders"]]
        nat, _, _ = oracle(dict(case, orders=even, tlc=None), "moment")
        natscale = np.abs(tr2abs(np.abs(nat[:n1, :n1]))).reshape(-1, len(even)).max(axis=0)
        res["dev"]["moment"] = compare(V, "moment_integral", got, tr2(want),
                                       1e-8 * tr2abs(wantabs) + 1e-11 * np.maximum(natscale, float(np.abs(tr2(want)).max()))[None, None, :] + 1e-13, case)
    elif what in ("momentum", "angmom"):
        modname = "gbasis.integrals.momentum" if what == "momentum" else "gbasis.integrals.angular_momentum"
        fname = "momentum_integral" if what == "momentum" else "angular_momentum_integral"
        f = getattr(gb.mod(modname), fname)
        got = f(shells1, transform=T) if T is not None else f(shells1)
        w = -1j * tr2(want)
        # "exact" is judged relative to the sum of absolute terms, with a floor at 1e-10 of the NATURAL scale of the element:
        # |<a|p|b>| <= sqrt(2 T_aa) for normalised functions, and |<a|L|b>| <= (|A| + extent) sqrt(2 T_aa).  Without the
        # floor an odd-parity element between almost coincident centres (value ~ displacement) would be held to an absolute
        # accuracy no double-precision evaluation at coordinates ~100 bohr can have.
        kin, _, _ = oracle(dict(case, tlc=None), "kinetic")
        nat = np.sqrt(2 * np.abs(np.diag(kin[:n1, :n1])))
        if what == "angmom":
            ext = []
            for sh in b1:
                Rk = float(sum(exact.dy(c) ** 2 for c in sh["center"])) ** 0.5 + 1.0 / min(exact.dyf(e) for e in sh["exps"]) ** 0.5
                ext += [Rk] * layout.size(sh)
            nat = nat * np.array(ext)
        if T is not None:
            nat = np.abs(T) @ nat
        floor = 1e-10 * np.sqrt(nat[:, None] * nat[None, :])[:, :, None]
        res["dev"][what] = compare(V, fname, got, w, 1e-8 * tr2abs(wantabs) + floor, case)
        herm = np.conj(np.swapaxes(got, 0, 1))
        res["dev"][what + "_hermitian"] = compare(V, fname + " Hermitian", got, herm,
                                                  2e-8 * tr2abs(wantabs) + 2 * floor, case)
    if case["kind"] == "basis":
        # the same requests on shells with a history (setters, in-place changes, rebuilt from used arrays) and on one
        # integral object used several times
        kw = {}
        if what == "moment":
            call = lambda sh: f(sh, org, orders)  # noqa: E731
            kw = {"moment_coord": org, "moment_orders": orders}
        else:
            call = lambda sh: f(sh)  # noqa: E731
        modname, clsname = {"overlap": ("gbasis.integrals.overlap", "Overlap"), "kinetic": ("gbasis.integrals.kinetic_energy", "KineticEnergyIntegral"),
                            "moment": ("gbasis.integrals.moment", "Moment"), "momentum": ("gbasis.integrals.momentum", "MomentumIntegral"),
                            "angmom": ("gbasis.integrals.angular_momentum", "AngularMomentumIntegral")}[what]
        from . import reuse
        res["history_probes"] = reuse.second_use(gb, b1, call, V, fname if what in ("momentum", "angmom") else what + "_integral")
        res["history_probes"] += reuse.instance_reuse(gb, b1, modname, clsname, V, clsname, **kw)
    return res


# ------------------------------------------------------------------------------------------ case generation
def gen_pair_cases(pid, what, seed, tier, lmax, draws, extra):
    out = []
    cid = 0
    for la in range(lmax + 1):
        for lb in range(lmax + 1):
            for d in range(draws):
                rng = cg.rng_for(seed, pid, "pair", la, lb, d)
                bits = 24
                same = rng.random() < 0.2
                sa = cg.shell(rng, la, bits=bits)
                sb = cg.shell(rng, lb, bits=bits, cen=sa["center"] if same else None)
                if d == 0:  # the first draw of every pair has M >= 2 on both sides and both types present somewhere
                    while len(sa["coeffs"][0]) < 2:
                        sa = cg.shell(rng, la, bits=bits)
                    while len(sb["coeffs"][0]) < 2:
                        sb = cg.shell(rng, lb, bits=bits, cen=sa["center"] if same else None)
                cid += 1
                c = {"id": cid, "pid": pid, "what": what, "kind": "pair", "la": la, "lb": lb, "basis": [sa, sb]}
                c.update(extra(rng, c))
                out.append(c)
            if la + lb >= 4 and la >= 1 and lb >= 1:
                # the tail regime: two diffuse shells so far apart along ONE axis that the Gaussian product prefactor is
                # 1e-10..1e-14 while the polynomial factors keep the integral above the tolerance of the property
                # (a screening threshold is usually a power of ten: the largest neglected element lies just beyond
                # mu R^2 = -ln(threshold); the highest angular momenta are placed right above 1e-10 .. 1e-14)
                wins = [(23.0, 32.0)] if la + lb < 7 else [(t_ + 0.03, t_ + 0.5) for t_ in (23.03, 25.33, 27.63, 29.93, 32.24)]
                for lo_t, hi_t in wins:
                    rng = cg.rng_for(seed, pid, "tail", la, lb, lo_t)
                    bits = 24
                    ea, eb = cg.exponent(rng, 0.3, 1.0, bits), cg.exponent(rng, 0.3, 1.0, bits)
                    mu = cg.val(ea) * cg.val(eb) / (cg.val(ea) + cg.val(eb))
                    dist = cg.dyadic((rng.uniform(lo_t, hi_t) / mu) ** 0.5, 12)
                    ax = rng.randrange(3)
                    cen_b = [[0, 0], [0, 0], [0, 0]]
                    cen_b[ax] = dist
                    sa = {"l": la, "center": [[0, 0]] * 3, "exps": [ea], "coeffs": [[cg.coeff(rng)]], "type": rng.choice(["cartesian", "spherical"])}
                    sb = {"l": lb, "center": cen_b, "exps": [eb], "coeffs": [[cg.coeff(rng)]], "type": rng.choice(["cartesian", "spherical"])}
                    cid += 1
                    c = {"id": cid, "pid": pid, "what": what, "kind": "pair", "la": la, "lb": lb, "basis": [sa, sb], "tail": True}
                    c.update(extra(rng, c))
                    out.append(c)
            if abs(la - lb) >= 2:
                # one centre (off the origin), angular momenta two or more apart, the higher shell Cartesian: Cartesian shells
                # are reducible (d holds an s part, f a p part, ...), so selection rules of pure harmonics do not apply
                rng = cg.rng_for(seed, pid, "onecentre", la, lb)
                cen = cg.center(rng, 2.0)
                sa = cg.shell(rng, la, K=rng.randint(1, 2), M=rng.randint(1, 2), bits=24, cen=cen, hi=min(20.0, cg.exp_cap(la)))
                sb = cg.shell(rng, lb, K=rng.randint(1, 2), M=rng.randint(1, 2), bits=24, cen=cen, hi=min(20.0, cg.exp_cap(lb)))
                hi_, lo_ = (sa, sb) if la > lb else (sb, sa)
                hi_["type"] = "cartesian"
                lo_["type"] = rng.choice(["cartesian", "spherical", "spherical"])
                cid += 1
                c = {"id": cid, "pid": pid, "what": what, "kind": "pair", "la": la, "lb": lb, "basis": [sa, sb], "onecentre": True}
                c.update(extra(rng, c))
                out.append(c)
            if (la * 7 + lb * 3 + seed) % 3 == 0 or tier != "quick":
                # two DISTINCT centres 1e-3..1e-5 bohr apart, in a frame tens of bohr from the coordinate origin
                rng = cg.rng_for(seed, pid, "near", la, lb)
                bits = 24
                o = cg.far_origin(rng)
                sa = cg.shell(rng, la, K=rng.randint(1, 2), bits=bits, cen=o, hi=min(50.0, cg.exp_cap(la)))
                sb = cg.shell(rng, lb, K=rng.randint(1, 2), bits=bits, cen=cg.add(o, cg.tiny_offset(rng)), hi=min(50.0, cg.exp_cap(lb)))
                cid += 1
                c = {"id": cid, "pid": pid, "what": what, "kind": "pair", "la": la, "lb": lb, "basis": [sa, sb], "near": True}
                c.update(extra(rng, c))
                if "origin" in c:
                    c["origin"] = cg.add(o, cg.center(rng, 2.0))
                out.append(c)
    return out


def gen_basis_cases(pid, what, seed, tier, lmax, count, extra, start_id, with_second=False, nmax=4):
    out = []
    for d in range(count):
        rng = cg.rng_for(seed, pid, "basis", d)
        bits = 24
        n = rng.randint(1, nmax)
        if d % 4 == 1:
            # diffuse shells spread over tens of bohr: the Gaussian prefactor is small but not negligible, and polynomial
            # factors (high l, high moment order, far origin) can make such integrals large
            n = max(n, 2)
            basis = [cg.shell(rng, rng.randint(1, lmax), K=rng.randint(1, 2), bits=bits, lo=0.02, hi=0.12, span=18.0) for _ in range(n)]
        elif d % 4 == 3:
            # a molecule far from the coordinate origin (tens of bohr) with the FULL exponent range, shells on one centre or
            # 1e-3..1e-5 bohr apart: translation invariance must survive tight primitives (exponent * |A|^2 ~ 1e9)
            o = cg.far_origin(rng)
            n = max(n, 2)
            basis = [cg.shell(rng, rng.randint(0, min(lmax, 2)), K=rng.randint(1, 3), bits=bits,
                              cen=o if rng.random() < 0.6 else cg.add(o, cg.tiny_offset(rng))) for _ in range(n)]
            # the two core-like shells have the SAME angular momentum (s in every other far case): their overlap is O(1)
            # and carries (a + b)|A|^2 ~ 1e9 in any expression that does not work with A - B
            basis[1]["l"] = basis[0]["l"] = 0 if d % 8 == 3 else basis[0]["l"]
            for s_ in basis[:2]:       # core-like shells: the tightest primitives the property allows for this l
                cap = cg.exp_cap(s_["l"])
                ex = [cg.exponent(rng, 0.3 * cap, cap, bits), cg.exponent(rng, 0.01 * cap, 0.05 * cap, bits), cg.exponent(rng, 0.5, 3.0, bits)]
                s_["exps"] = ex
                s_["coeffs"] = [[cg.coeff(rng) for _ in range(len(s_["coeffs"][0]))] for _ in ex]
                s_["center"] = o
        else:
            cens = [cg.center(rng) for _ in range(3)]
            basis = [cg.shell(rng, rng.randint(0, lmax), bits=bits, cen=rng.choice(cens) if rng.random() < 0.6 else None)
                     for _ in range(n)]
            if d % 4 == 2 and rng.random() < 0.6:
                # two distinct shells over the same primitives (same centre, l, exponents, M >= 2; other coefficients)
                k = rng.randrange(len(basis))
                basis.insert(k + 1, cg.sibling(rng, basis[k]))
                if rng.random() < 0.5:
                    basis[k], basis[k + 1] = basis[k + 1], basis[k]
                if len(basis) > max(nmax, 2):
                    basis.pop(rng.choice([i for i in range(len(basis)) if i not in (k, k + 1)]))
        c = {"id": start_id + d, "pid": pid, "what": what, "kind": "basis", "basis": basis, "spread": d % 4 == 1, "far": d % 4 == 3}
        if with_second and d % 2 == 0 and d % 4 != 3 and d % 4 != 1:
            c["basis2"] = [cg.shell(rng, rng.randint(0, lmax), bits=bits,
                                    cen=rng.choice(cens) if rng.random() < 0.5 else None)
                           for _ in range(rng.randint(1, 2))]
            # the two type lists are dispatched independently: all four uniform combinations and the mixed ones in turn
            combo = (d // 4) % 5
            if combo < 4:
                for s_ in basis:
                    s_["type"] = ["spherical", "cartesian"][combo % 2]
                for s_ in c["basis2"]:
                    s_["type"] = ["cartesian", "spherical"][combo // 2]
                    if s_["l"] < 2:
                        s_["l"] = 2
        if rng.random() < 0.35:
            ntot = sum(layout.size(s) for s in basis)
            rows = rng.randint(1, ntot + 1)
            c["transform"] = [[cg.val(cg.dyadic(rng.uniform(-1, 1), 8)) for _ in range(ntot)] for _ in range(rows)]
        c.update(extra(rng, c))
        out.append(c)
    return out


PLANS = {
    "C01": dict(what="overlap", lmax=5, blmax=4),
    "C02": dict(what="kinetic", lmax=5, blmax=4),
    "C07": dict(what="moment", lmax=4, blmax=4),
    "C08": dict(what="momentum", lmax=4, blmax=3),
}


def extras_for(pid, what):
    def ex(rng, c):
        e = {}
        if what == "overlap":
            e["km"], e["dm"] = 0, 0
            if c["kind"] == "pair":
                e["raw"] = [[0, 1], [1, 0], [0, 0]]
        elif what == "kinetic":
            e["km"], e["dm"] = 0, 2
        elif what == "moment":
            far = rng.random()
            if c.get("spread") or c.get("tail"):
                far = 0.9
            if c.get("far") or c.get("near"):
                far = 0.1
            if far < 0.3:
                org = list(c["basis"][0]["center"])
            elif far < 0.8:
                org = cg.center(rng, 3.0)
            else:
                org = cg.center(rng, rng.choice([40.0, 160.0]), 1)
            e["origin"] = org
            n = rng.randint(1, 4)
            orders = [[rng.randint(0, 4) for _ in range(3)] for _ in range(n)]
            if c.get("spread") or c.get("tail"):
                orders.append(rng.choice([[4, 0, 0], [0, 4, 0], [0, 0, 4], [3, 1, 0]]))
                orders.append([4, 4, 4])
            if rng.random() < 0.3:
                orders.append([0, 0, 0])
            rng.shuffle(orders)
            e["orders"] = orders
            e["km"], e["dm"] = max(max(o) for o in orders), 0
        elif what in ("momentum", "angmom"):
            e["km"], e["dm"] = 1, 1
        return e
    return ex


# ------------------------------------------------------------------------------------------ main
def run(pid, tier, seed, only_case=None):
    plan = PLANS[pid]
    ctx = common.Ctx(pid, tier, seed)
    quick = tier == "quick"
    ctx.write_evidence = ctx.write_evidence and only_case is None
    whats = [plan["what"]] if pid != "C08" else ["momentum", "angmom"]
    cases = []
    for what in whats:
        ex = extras_for(pid, what)
        cs = gen_pair_cases(pid, what, seed, tier, plan["lmax"], 1 if quick else 6, ex)
        for c in cs:
            c["id"] += len(cases)
        cases += cs
        cases += gen_basis_cases(pid, what, seed, tier, plan["blmax"], 16 if quick else 120, ex,
                                 len(cases) + 1, with_second=(pid == "C01"))
    if only_case is not None:
        cases = [only_case]
    # ---- TLC
    primes = pick_primes(cases)
    fp_cases = cases if not quick else [c for c in cases if c["kind"] == "pair" or c["id"] % 2 == 0]
    if quick:   # bound the residue work per case: at most 2x2 primitive pairs of 2 shell pairs are fingerprinted
        pass
    jobs = []
    if only_case is None:
        jobs.append(lambda: run_osmoment(ctx, primes[0], workers=6))
        if pid in ("C02", "C08"):
            jobs.append(lambda: run_diffop(ctx, primes[0], workers=4))
    jobs.append(lambda: run_replaysep(ctx, fp_cases, primes[0], workers=5))
    jobs.append(lambda: run_replaysep(ctx, fp_cases, primes[1], workers=5))
    results = common.run_models_parallel(jobs)
    r1, r2 = results[-2], results[-1]
    for c in cases:
        if c["id"] in r1:
            c["tlc"] = {str(primes[0]): r1[c["id"]], str(primes[1]): r2[c["id"]]}
    # ---- replay into gbasis
    out = common.pmap(replay_case, cases)
    fp_total = 0
    for c, r in zip(cases, out):
        if common.impl_failure(ctx, r, c, "sep", c["what"]):
            continue
        fp_total += r["fp_checked"]
        if r["fp_bad"]:
            raise tlc.MachineryError("harness oracle disagrees with TLC residues in case %s: %s" % (c["id"], r["fp_bad"]))
        for k, v in r["dev"].items():
            ctx.note_dev(k, v)
        sig = (c["what"], c["kind"], tuple((s["l"], len(s["exps"]), len(s["coeffs"][0]), s["type"]) for s in c["basis"]),
               c.get("transform") is not None, "basis2" in c)
        ctx.case_done(sig, nontrivial=any(s["l"] > 0 or len(s["exps"]) > 1 for s in c["basis"]))
        ctx.replayed += 1
        for v in r["violations"]:
            key = {"function": v["check"], "case_kind": c["kind"], "what": c["what"]}
            cc = {k: c[k] for k in c if k != "tlc"}
            ctx.violation(key, "case %s: %s" % (c["id"], v["message"]), {"module": "sep", "case": cc})
    ctx.rule = ("every ordered pair (l_a, l_b) <= %d enumerated with seeded dyadic draws (1-4 primitives, 1-3 segments, "
                "exponents 0.02..1e5*10^-l, both coordinate types, coincident and distinct centres) plus whole bases of 1-4 "
                "shells (with a second basis set / a rectangular transformation in part); a case is distinct by its tuple of "
                "(l, K, M, type) per shell and non-trivial if some shell has l > 0 or K > 1" % plan["lmax"])
    ctx.samples = [{k: c[k] for k in c if k not in ("tlc", "transform")} for c in cases[:1] + cases[-1:]]
    ctx.extra["oracle_table_entries_fingerprinted_against_TLC"] = fp_total
    ctx.extra["primes"] = primes
    ctx.extra["exhaustive"] = False
    ctx.assumptions = [
        "TLC evaluates the TLA+ text faithfully; residues in F_P for two 15-bit primes stand for the rationals "
        "(a wrong oracle entry survives both with probability ~1e-9)",
        "mpmath (40 digits) for exp, pi and fractional powers at exact arguments; numpy for sums of products",
        "floating-point error of gbasis for real inputs outside the sampled dyadic points is not covered",
    ]
    return ctx.finish()
