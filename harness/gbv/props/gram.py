"""C16 (analytic integrals and pointwise evaluations describe the same functions) and
C17 (positivity and Schwarz bounds of Gram matrices).

These two properties are decided by replaying the stated relation on configurations that TLC enumerates
(Classes.tla: number of shells x coordinate-type pattern x geometry class x contraction class); TLC itself cannot
evaluate quadratures or eigenvalues, so they are claimed at `exploration` level.  C16: trapezoid quadrature on a
uniform grid (box +-10 bohr, h = 0.2; error far below 1e-10 for exponents 0.3..2.5 and centres within 1 bohr) of the
evaluated functions against overlap, moment (order <= 2), kinetic matrices, tr(PS) and tr(PT).  C17: symmetric
positive semi-definiteness of S, T, -V(q > 0) and of the repulsion array over index pairs, |S_ab| <= 1,
(ab|ab) >= 0 and the Schwarz inequality, with the slack the property states.
"""
import itertools
import os

import numpy as np

from .. import cases as cg
from .. import layout, tlaparse, tlc
from . import common


def run_classes(ctx, maxshells, geoms, contr):
    d = tlc.scratch("cls")
    tlc.write_module(d, "MC_Cls", "\nVARIABLES n, types, geom, contr\nINSTANCE Classes WITH MaxShells <- %d, Geoms <- %s, Contr <- %s\n"
                     % (maxshells, tlc.tla_value(set(geoms)), tlc.tla_value(set(contr))), extends=("Integers",))
    dump = os.path.join(d, "states")
    res = tlc.run(d, "MC_Cls", "SPECIFICATION Spec\nINVARIANT PairBijective\nINVARIANT TypeOK\n", workers=4, timeout=600, extra=["-dump", dump])
    if not res.ok:
        ctx.spec_violation("Classes", res)
    ctx.add_tlc("Classes: configuration classes (shells x type pattern x geometry x contraction)", res)
    st = tlaparse.read_dump(dump + ".dump")
    tlc.cleanup(d)
    return st


def replay_c16(case):
    from .. import gb
    rng = cg.rng_for(case["seed"], "C16", case["id"])
    basis = []
    for ty in case["types"]:
        K = 1 if case["contr"] == "primitive" else rng.randint(2, 3)
        M = 1 if case["contr"] != "generalized" else 2
        cen = [cg.dyadic(rng.uniform(-1, 1) * 0.55, 8) for _ in range(3)] if case["geom"] != "coincident" else [[0, 0]] * 3
        basis.append(cg.shell(rng, rng.randint(1 if M > 1 else 0, case.get("lmax", 4)), K=K, M=M, typ=ty, lo=0.3, hi=2.5, cen=cen))
    if case["contr"] == "generalized":
        # the zero-padded layout of a segmented table stored as one generalized shell: every column has a structural zero
        co_ = basis[0]["coeffs"]
        if len(co_) >= 2 and len(co_[0]) >= 2:
            co_[0][1] = [0, 0]
            co_[-1][0] = [0, 0]
            for j_ in range(len(co_[0])):          # every column keeps a non-zero entry (the drawn matrix may have had zeros)
                if all(row_[j_][0] == 0 for row_ in co_):
                    co_[0 if j_ == 0 else -1][j_] = cg.coeff(rng)
    if case["geom"] == "coincident" and len(set(case["types"])) == 2 and case["id"] % 2 == 0:
        # one centre, a Cartesian shell two units of l above a pure one: Cartesian d, f, g hold s, p, (s, d) parts, so these
        # one-centre blocks do not vanish although the angular momenta differ
        lo_l = 1 if case["contr"] == "generalized" else rng.choice([0, 1])
        for s_ in basis:
            s_["l"] = lo_l if s_["type"] == "spherical" else min(lo_l + 2, case.get("lmax", 4))
    elif case["id"] % 3 == 1:
        for s_ in basis:                      # a pure d shell in every third class (the most common pure shell of all)
            if s_["type"] == "spherical":
                s_["l"] = 2
                break
    shells = gb.make_basis(basis)
    # trapezoid rule: for a product exponent p <= 5 the aliasing error is ~ exp(-pi^2 / (p h^2)) = 5e-22 at h = 0.2, times
    # at most (pi / (p h))^(2l+2) ~ 1e5; the box cuts r^8 exp(-0.6 r^2) below 1e-13
    h = 0.2
    box = 9.0 if max(s_["l"] for s_ in basis) <= 3 else 10.0        # r^(2l) exp(-0.6 r^2) is below 1e-11 at the faces
    ax = np.arange(-box, box + h / 2, h)
    m = gb.mod
    nb = sum(layout.size(s) for s in basis)
    A = np.array([[rng.uniform(-1, 1) for _ in range(nb)] for _ in range(nb)])
    P = A @ A.T
    S = np.zeros((nb, nb))
    Tq = np.zeros((nb, nb))
    org = np.array([0.25, -0.5, 0.125])
    orders = np.array([[1, 0, 0], [0, 1, 1], [2, 0, 0], [0, 0, 2], [1, 1, 0]])
    Mq = np.zeros((nb, nb, len(orders)))
    rho = 0.0
    tq = 0.0
    ev = m("gbasis.evals.eval").evaluate_basis
    ed = m("gbasis.evals.eval_deriv").evaluate_deriv_basis
    D = m("gbasis.evals.density")
    w = h ** 3
    yy, zz = np.meshgrid(ax, ax, indexing="ij")
    for xs in np.array_split(ax, 12):               # slab by slab to bound memory
        pts = np.concatenate([np.stack([np.full(yy.size, x), yy.ravel(), zz.ravel()], axis=1) for x in xs])
        phi = ev(shells, pts)
        S += w * phi @ phi.T
        for k in range(3):
            o = np.zeros(3, dtype=int)
            o[k] = 1
            dk = ed(shells, pts, o)
            Tq += 0.5 * w * dk @ dk.T
        rel = pts - org
        for n, od in enumerate(orders):
            f = np.prod(rel ** od[None, :], axis=1)
            Mq[:, :, n] += w * (phi * f[None, :]) @ phi.T
        rho += w * D.evaluate_density(P, shells, pts).sum()
        tq += w * D.evaluate_posdef_kinetic_energy_density(P, shells, pts).sum()
    res = {"id": case["id"], "violations": [], "dev": 0.0}

    def chk(name, a, b, tol):
        dev = float(np.abs(np.asarray(a) - np.asarray(b)).max())
        res["dev"] = max(res["dev"], dev / tol * 1e-8)
        if not dev <= tol:
            res["violations"].append("%s: quadrature of the evaluated functions and the analytic integral differ by %.3g (types %s, l %s)"
                                     % (name, dev, case["types"], [s["l"] for s in basis]))
    if len(basis) >= 2:
        # a neighbouring geometry (first shell displaced by 5e-7 bohr) is evaluated first and discarded
        from . import reuse
        reuse.neighbour_first(gb, basis, m("gbasis.integrals.overlap").overlap_integral)
        reuse.neighbour_first(gb, basis, m("gbasis.integrals.kinetic_energy").kinetic_energy_integral)
        reuse.neighbour_first(gb, basis, lambda sh: m("gbasis.integrals.moment").moment_integral(sh, org, orders))
    Sa = m("gbasis.integrals.overlap").overlap_integral(shells)
    Ta = m("gbasis.integrals.kinetic_energy").kinetic_energy_integral(shells)
    Ma = m("gbasis.integrals.moment").moment_integral(shells, org, orders)
    # the trapezoid rule is converged to ~1e-14 on this grid (the deviation observed on the unchanged tree; the property
    # names 1e-10): the two halves of the library are held to 1e-9, moments (which grow with the box) to 1e-8
    chk("overlap_integral", S, Sa, 1e-9)
    tsc = np.sqrt(np.abs(np.diag(Ta)))
    chk("kinetic_energy_integral", Tq / (tsc[:, None] * tsc[None, :]), Ta / (tsc[:, None] * tsc[None, :]), 1e-9)
    chk("moment_integral", Mq, Ma, 1e-8)
    chk("integral of evaluate_density = tr(P S)", rho, np.trace(P @ Sa), 1e-9 * np.abs(P).sum())
    chk("integral of evaluate_posdef_kinetic_energy_density = tr(P T)", tq, np.trace(P @ Ta), 1e-9 * np.abs(P).sum() * (tsc.max() ** 2))
    res["sig"] = (tuple(case["types"]), case["geom"], case["contr"], tuple(s["l"] for s in basis))
    return res


def replay_c17(case):
    from .. import gb
    rng = cg.rng_for(case["seed"], "C17", case["id"])
    n = len(case["types"])
    geom = case["geom"]
    cens = []
    tight_twins = (case["id"] + case["seed"]) % 2 == 0          # (the quick tier keeps the classes with (id + seed) % 4 == 0)
    twin_gap = 2.0 ** -11 if tight_twins else 2.0 ** -6           # displacement of the twin shells of the "dependent" class
    for k in range(n):
        if geom == "coincident":
            cens.append([[0, 0]] * 3)
        elif geom == "near":
            cens.append([cg.dyadic(rng.uniform(-0.3, 0.3), 8) for _ in range(3)])
        elif geom == "isosceles":
            # copies of ONE shell at equal distances from the first in different directions (equivalent pairs of a molecule)
            if k == 0:
                iso_d = rng.choice([0.75, 1.0, 1.5])
                cens.append([cg.dyadic(rng.uniform(-1, 1), 8) for _ in range(3)])
            else:
                dirs = [(1, 0, 0), (0, 1, 0), (0, 0, -1), (0, -1, 0)]
                cens.append([cg.dyadic(cg.val(c_) + iso_d * u_, 12) for c_, u_ in zip(cens[0], dirs[(k - 1) % 4])])
        elif geom == "farnear":            # distinct centres 1e-3..1e-5 bohr apart, tens of bohr from the coordinate origin
            if k == 0:
                far0 = cg.far_origin(rng)
            cens.append(far0 if k == 0 else (cg.add(cens[k - 1], cg.tiny_offset(rng)) if k % 2 else cg.add(far0, cg.center(rng, 1.0))))
        elif geom == "dependent":          # pairs of shells almost on top of each other
            cens.append(cens[k - 1][:2] + [cg.dyadic(cg.val(cens[k - 1][2]) + twin_gap, 20)] if k % 2 else [cg.dyadic(rng.uniform(-1, 1), 8) for _ in range(3)])
        else:
            cens.append([cg.dyadic(rng.uniform(-4, 4), 8) for _ in range(3)])
    eri = case["eri"]
    basis = []
    for k, ty in enumerate(case["types"]):
        K = 1 if case["contr"] == "primitive" else rng.randint(2, 3)
        M = 1 if case["contr"] != "generalized" else 2
        lo, hi = (0.1, 10.0) if eri else ((5.0, 50.0) if geom == "farnear" and k == 0 else (0.05, 50.0))
        l = rng.randint(1 if geom == "isosceles" else 0, 2 if eri else 3)
        if geom == "dependent" and k == 0 and not eri and tight_twins:
            l = rng.choice([2, 3])            # the tight twins carry high Boys orders
        if geom == "isosceles" and k >= 1:
            sh = dict(basis[0], center=cens[k])
        elif geom in ("dependent", "farnear") and k % 2:
            sh = dict(basis[k - 1], center=cens[k])          # the same shell displaced by 1/64 bohr: nearly dependent
        else:
            sh = cg.shell(rng, l, K=K, M=M, typ=ty, lo=lo, hi=hi, cen=cens[k])
        basis.append(sh)
    shells = gb.make_basis(basis)
    m = gb.mod
    res = {"id": case["id"], "violations": [], "dev": 0.0}

    def psd(name, A, slack, sign=1):
        if not np.abs(A - A.T).max() <= slack * max(1.0, np.abs(A).max()):
            res["violations"].append("%s is not symmetric (%.3g)" % (name, np.abs(A - A.T).max()))
        ev = np.linalg.eigvalsh((A + A.T) / 2) * sign
        lim = -slack * max(np.abs(ev).max(), 1e-300)
        res["dev"] = max(res["dev"], float(-ev.min() / max(np.abs(ev).max(), 1e-300)) if ev.min() < 0 else 0.0)
        if ev.min() < lim:
            res["violations"].append("%s is not %s semi-definite: extreme eigenvalue %.3g against largest %.3g (types %s, geometry %s, l %s)"
                                     % (name, "positive" if sign == 1 else "negative", sign * ev.min(), np.abs(ev).max(), case["types"], geom,
                                        [s["l"] for s in basis]))
    S = m("gbasis.integrals.overlap").overlap_integral(shells)
    psd("overlap_integral", S, 1e-9)
    if np.abs(S).max() > 1 + 1e-9:
        res["violations"].append("an overlap element exceeds 1 in magnitude (%.12g)" % np.abs(S).max())
    psd("kinetic_energy_integral", m("gbasis.integrals.kinetic_energy").kinetic_energy_integral(shells), 1e-9)
    c0 = np.array([cg.val(x) for x in basis[0]["center"]])
    npos = 7 if (geom == "dependent" and n >= 2) else 3
    pos = np.array([list(c0 + np.array([rng.uniform(-3, 3) for _ in range(3)])) for _ in range(npos - 1)] + [list(c0)])
    if geom == "dependent" and n >= 2:
        # a charge at the distance where the Boys argument of the first primitive pair is just below 20 for the first shell
        # and just above for its displaced twin: nearly dependent functions must be treated consistently across any
        # change of evaluation regime of F_m
        a0 = cg.val(basis[0]["exps"][0])
        # (T0 = 12..36: wherever an implementation might switch between a series, a table and an asymptotic form)
        for slot, T0 in enumerate([12.0, 16.0, 20.0, 25.0, 30.0, 36.0]):
            dT = 4 * a0 * (T0 / (2 * a0)) ** 0.5 * twin_gap          # T(twin, twin) - T(shell, shell) for a charge on the -z side
            pos[slot] = c0 - np.array([0.0, 0.0, ((T0 - 0.2 * dT) / (2 * a0)) ** 0.5])   # T(shell, shell) < T0 < T(shell, twin)
    q = np.array([rng.uniform(0.2, 5.0) for _ in range(npos)])
    V = m("gbasis.integrals.point_charge").point_charge_integral(shells, pos, q)
    for c in range(npos):
        psd("point_charge_integral of a positive charge", V[:, :, c], 1e-9, sign=-1)
    if not eri and case["id"] % 3 == 0:
        from . import reuse
        hv = []
        reuse.second_use(gb, basis, m("gbasis.integrals.overlap").overlap_integral, hv, "overlap_integral")
        res["violations"] += [v["message"] for v in hv]
    if eri:
        E = m("gbasis.integrals.electron_repulsion").electron_repulsion_integral(shells, notation="chemist")
        nb = E.shape[0]
        psd("electron_repulsion_integral over index pairs", E.reshape(nb * nb, nb * nb), 1e-6)
        dg = np.einsum("abab->ab", E)
        mx = np.abs(E).max()
        if dg.min() < -1e-6 * mx:
            res["violations"].append("a diagonal repulsion element (ab|ab) is negative: %.3g" % dg.min())
        viol = E ** 2 - dg[:, :, None, None] * dg[None, None, :, :]
        if viol.max() > 1e-6 * mx * mx:
            res["violations"].append("the Schwarz inequality (ab|cd)^2 <= (ab|ab)(cd|cd) fails by %.3g" % viol.max())
    res["sig"] = (tuple(case["types"]), geom, case["contr"], eri, tuple(s["l"] for s in basis))
    return res


def run(pid, tier, seed, only_case=None):
    ctx = common.Ctx(pid, tier, seed, level="exploration")
    ctx.write_evidence = ctx.write_evidence and only_case is None
    quick = tier == "quick"
    fn = replay_c16 if pid == "C16" else replay_c17
    if only_case is not None:
        cases = [only_case]
    elif pid == "C16":
        st = run_classes(ctx, 3, ["coincident", "spread"], ["primitive", "contracted", "generalized"])
        cases = [{"id": n + 1, "types": s["types"], "geom": s["geom"], "contr": s["contr"], "seed": seed} for n, s in enumerate(st)]
        if quick:
            small = [dict(c, lmax=3) for c in cases if len(c["types"]) <= 2]
            # every mixed-type class with generalized shells (where the one- and two-index pipelines differ most), and a
            # third of the remaining classes
            must = [c for c in small if len(set(c["types"])) == 2 and c["contr"] == "generalized"]
            rest = [c for c in small if c not in must and (c["id"] + seed) % 3 == 0]
            cases = must + rest[:8]
    else:
        st = run_classes(ctx, 5, ["coincident", "near", "separated", "dependent", "farnear", "isosceles"], ["primitive", "contracted", "generalized"])
        cases = []
        for n, s in enumerate(st):
            c = {"id": n + 1, "types": s["types"], "geom": s["geom"], "contr": s["contr"], "seed": seed}
            c["eri"] = (len(s["types"]) <= 3 and s["contr"] != "generalized" and (n + seed) % 2 == 0) or \
                (len(s["types"]) <= 2 and s["contr"] == "generalized")
            cases.append(c)
        if quick:
            cases = [c for c in cases if (c["id"] + seed) % 4 == 0 or len(c["types"]) <= 2]
    out = common.pmap(fn, cases)
    for c, r in zip(cases, out):
        if common.impl_failure(ctx, r, c, "gram", pid):
            continue
        ctx.replayed += 1
        ctx.case_done((pid,) + tuple(r["sig"]))
        ctx.note_dev("largest relative violation / deviation", r["dev"])
        for v in r["violations"]:
            ctx.violation({"function": v.split(" ")[0].split(":")[0]}, "case %d: %s" % (c["id"], v), {"module": "gram", "case": c})
    ctx.extra["exhaustive"] = False
    ctx.rule = ("configuration classes enumerated by TLC (shells x type pattern x geometry class x contraction class); one seeded basis per "
                "class (quick: all classes with <= 2 shells and a fraction of the rest); distinct by class and drawn angular momenta")
    ctx.samples = [cases[0]]
    ctx.assumptions = ["the relation itself is replayed on sampled configurations; TLC only enumerates the classes (exploration level)"] + (
        ["trapezoid rule on a uniform grid (h = 0.2, box +-10 bohr): error below 1e-10 for exponents 0.3..2.5"] if pid == "C16" else [])
    return ctx.finish()
