"""C06 (density and density-derived fields) and C15 (stress tensor, Ehrenfest force and Hessian).

TLC (MCFields over Fields.tla): every quantity is a formal bilinear form in g(o1, o2) = sum_ab P_ab d^o1 phi_a
d^o2 phi_b with coefficients polynomial in alpha, beta.  For all 125 order triples the as-implemented half-range
Leibniz loop equals the definition; gradient / Laplacian / Hessian bookkeeping equals the definitions, the
Hessian is symmetric with trace = Laplacian; the stress tensor equals its documented expression and is
symmetric, force = -div(stress), Ehrenfest Hessian = Jacobian of the force, symmetric option = average with the
transpose; every guarded term vanishes at its guard value; threshold rule decision table.  TLC writes the
DEFINITIONS as coefficient tables.
Replay: exact derivatives of the basis functions (C05 oracle) -> g(o1, o2) -> the tables -> expected fields,
compared with what gbasis returns (both back-ends, transformations square and rectangular, PSD and indefinite
density matrices, real alpha / beta including 0, 1/2, 1); thresholds bracketing an exactly known negative value.
"""
import itertools
import os
from fractions import Fraction as Fr

import numpy as np

from .. import cases as cg
from .. import exact, layout, sev, tlc
from . import common
from .c05 import oracle_shell, special_points


def run_mcfields(ctx):
    d = tlc.scratch("fld")
    os.makedirs(os.path.join(d, "out"))
    # ASSUME = negative control: the threshold test applied before the factor 1/2 (tree before its repair) must differ
    # from the specified rule somewhere on the grid, otherwise the decision table could not tell them apart
    tlc.write_module(d, "MC_F", "\nVARIABLES ob, done, ok\nINSTANCE MCFields\nASSUME PinnedTPlusRuleDiffers\n", extends=())
    res = tlc.run(d, "MC_F", "SPECIFICATION Spec\nINVARIANT AllHold\n", workers=16, timeout=1800,
                  env={"GBV_OUT": os.path.join(d, "out")})
    if not res.ok:
        ctx.spec_violation("MCFields", res)
    ctx.add_tlc("MCFields: as-implemented Leibniz/gradient/Laplacian/Hessian/stress/force/Ehrenfest-Hessian forms = their "
                "definitions as formal bilinear forms (125 order triples, all components), guards, threshold table", res)
    tabs = tlc.read_json_dir(os.path.join(d, "out"), "field_")
    tlc.cleanup(d)
    out = {}
    for v in tabs.values():
        out[v["name"]] = [(tuple(t[0]), tuple(t[1]), t[2]) for t in v["terms"]]
    return out


def coef_value(c, alpha, beta):
    return (c[0] + c[1] * alpha + c[2] * beta + c[3] * alpha * beta) / 2.0


class Gamma:
    """g(o1, o2) at the case's points from exact basis-function derivatives."""

    def __init__(self, basis, pts, P, T):
        self.basis, self.pts, self.P, self.T = basis, pts, P, T
        self.norms = [sev.contraction_norm(s) for s in basis]
        self.cache = {}

    def phi(self, o):
        if o not in self.cache:
            blocks = [oracle_shell(s, self.pts, o) for s in self.basis]
            w, wabs = layout.assemble([self.basis], lambda ks: blocks[ks[0]], [self.norms])
            if self.T is not None:
                w, wabs = self.T @ w, np.abs(self.T) @ wabs
            self.cache[o] = (w, wabs)
        return self.cache[o]

    def g(self, o1, o2):
        a, aabs = self.phi(o1)
        b, babs = self.phi(o2)
        return np.einsum("ab,ap,bp->p", self.P, a, b), np.einsum("ab,ap,bp->p", np.abs(self.P), aabs, babs)

    def field(self, terms, alpha=0.0, beta=0.0):
        v = 0.0
        vabs = 0.0
        for o1, o2, c in terms:
            cv = coef_value(c, alpha, beta)
            # the scale of a term is the sum of the magnitudes of the parts the DOCUMENTED expression adds up (the alpha
            # family, the beta family, ...), not the magnitude of their sum: for alpha = 1, beta = -1/2 the alpha and beta
            # families of the Ehrenfest Hessian cancel analytically (1e7 - 1e7 = 1e-3 at the centre of a tight p shell)
            # and no evaluation in doubles can return more digits than the families have
            cabs = (abs(c[0]) + abs(c[1] * alpha) + abs(c[2] * beta) + abs(c[3] * alpha * beta)) / 2.0
            if cabs == 0.0:
                continue
            g, gabs = self.g(o1, o2)
            v = v + cv * g
            vabs = vabs + cabs * gabs
        n = len(self.pts)
        return (np.zeros(n) + v, np.zeros(n) + vabs)


def density_matrix(rng, n, kind):
    A = np.array([[cg.val(cg.dyadic(rng.uniform(-1, 1), 8)) for _ in range(n)] for _ in range(n)])
    if kind == "psd":
        return A @ A.T
    return A + A.T


def gen_cases(pid, tier, seed):
    quick = tier == "quick"
    out = []
    n = (20 if quick else 80)
    for d in range(n):
        rng = cg.rng_for(seed, pid, d)
        lmax = 4 if pid == "C06" else 3
        nsh = rng.randint(1, 3 if quick else 4)
        cens = [cg.center(rng) for _ in range(2)]
        basis = [cg.shell(rng, rng.randint(0, lmax), K=rng.randint(1, 3), M=rng.randint(1, 2), bits=24,
                          hi=min(200.0, cg.exp_cap(lmax)), cen=rng.choice(cens) if rng.random() < 0.5 else None)
                 for _ in range(nsh)]
        nb = sum(layout.size(s) for s in basis)
        c = {"id": d + 1, "pid": pid, "basis": basis}
        if d % 3 == 1:
            rows = rng.choice([max(1, nb - 2), nb, nb + 1])
            c["transform"] = [[cg.val(cg.dyadic(rng.uniform(-1, 1), 8)) for _ in range(nb)] for _ in range(rows)]
            nb = rows
        Pm = density_matrix(rng, nb, "psd" if d % 2 == 0 else "indefinite")
        if d % 4 == 3 and nb >= 2:
            # symmetrised transition / difference densities: exact zeros on the diagonal of rows that carry off-diagonal
            # elements, whole rows of zeros, and (every other time) no diagonal at all
            for i_ in range(nb):
                if rng.random() < 0.5 or d % 8 == 7:
                    Pm[i_, i_] = 0.0
            k_ = rng.randrange(nb)
            if nb >= 3:
                Pm[k_, :] = 0.0
                Pm[:, k_] = 0.0
        c["P"] = Pm.tolist()
        c["psd"] = d % 2 == 0
        pts = special_points(rng, basis, rng.randint(1, 6 if quick else 20))
        if d % 5 == 4:
            # a line scan through a shell centre along a coordinate axis: EVERY point lies on two nodal planes of the
            # shell's functions (and one of them on the centre itself)
            from fractions import Fraction
            c0_ = [exact.dy(x) for x in basis[0]["center"]]
            ax_ = rng.randrange(3)
            pts = []
            for t_ in (Fraction(-3, 4), Fraction(0), Fraction(5, 16), Fraction(9, 8)):
                q_ = list(c0_)
                q_[ax_] += t_
                pts.append(q_)
        c["points"] = [[[x.numerator, x.denominator] for x in p] for p in pts]
        c["alpha"] = rng.choice([0, 1, 0.5, 1.0, 0.0, cg.val(cg.dyadic(rng.uniform(-2, 2), 8)), 0.25, -1.5])
        c["beta"] = rng.choice([0, 0.0, 1, cg.val(cg.dyadic(rng.uniform(-2, 2), 8)), 0.75])
        # parameters NEAR (not at) the special values 0, 1/2, 1 for which whole families of terms drop out of the
        # definitions: a scan in alpha, a finite-difference step, a round-off such as 0.1 * 10 - 1e-6
        near = {1: (1.0 - 2.0 ** -18, None), 2: (0.5 + 2.0 ** -19, None), 3: (None, 2.0 ** -19), 4: (1.0 + 2.0 ** -19, -2.0 ** -18),
                6: (2.0 ** -20, 1.0 - 2.0 ** -18),
                # and AT the special values, with the other parameter generic (whole families of terms drop out exactly)
                5: (0.5, 0.75 if (d // 7) % 2 else -1.25), 0: ((1.0, 0.0)[(d // 7) % 2], -0.5)}.get(d % 7)
        if near:
            c["alpha"] = near[0] if near[0] is not None else c["alpha"]
            c["beta"] = near[1] if near[1] is not None else c["beta"]
        c["orders"] = [list(o) for o in rng.sample(list(itertools.product(range(5), repeat=3)), 3 if quick else 8)] + [[4, 4, 4]] * (d == 0) \
            + [[3, 0, 1], [2, 2, 0], [0, 0, 0]]
        out.append(c)
    return out


def replay_case(case):
    from .. import gb
    pid = case["pid"]
    tabs = case["tabs"]
    basis = case["basis"]
    pts = [[Fr(a[0], a[1]) for a in p] for p in case["points"]]
    fpts = np.array([[float(x) for x in p] for p in pts])
    P = np.array(case["P"])
    T = np.array(case["transform"]) if case.get("transform") is not None else None
    G = Gamma(basis, pts, P, T)
    shells = gb.make_basis(basis)
    kw = {} if T is None else {"transform": T}
    dens = gb.mod("gbasis.evals.density")
    res = {"id": case["id"], "violations": [], "dev": 0.0, "n": 0}
    alpha, beta = case["alpha"], case["beta"]

    def cmp(name, got, want, wabs):
        res["n"] += 1
        got = np.asarray(got)
        if got.shape != want.shape:
            res["violations"].append("%s: shape %s, expected %s" % (name, got.shape, want.shape))
            return
        tol = 1e-9 * wabs + 1e-150
        dev = np.abs(got - want)
        res["dev"] = max(res["dev"], float((dev / (wabs + 1e-150)).max()))
        bad = ~(dev <= tol)
        if bad.any():
            idx = np.unravel_index(np.argmax(np.where(bad, dev / tol, 0)), dev.shape)
            res["violations"].append("%s: element %s is %r, value of the definition %r (tolerance %.3g); %d elements differ"
                                     % (name, tuple(int(i) for i in idx), got[idx], want[idx], tol[idx], int(bad.sum())))

    def stack(names, a=0.0, b=0.0):
        vs = [G.field(tabs[n], a, b) for n in names]
        return np.stack([v[0] for v in vs], axis=-1), np.stack([v[1] for v in vs], axis=-1)

    if pid == "C06":
        for dt in ("general", "direct"):
            k2 = dict(kw, deriv_type=dt)
            w, wa = stack(["grad_1", "grad_2", "grad_3"])
            cmp("evaluate_density_gradient(%s)" % dt, dens.evaluate_density_gradient(P, shells, fpts, **k2), w, wa)
            w, wa = G.field(tabs["lap"])
            cmp("evaluate_density_laplacian(%s)" % dt, dens.evaluate_density_laplacian(P, shells, fpts, **k2), w, wa)
            hs = [stack(["hess_%d_1" % i, "hess_%d_2" % i, "hess_%d_3" % i]) for i in (1, 2, 3)]
            w, wa = np.stack([h[0] for h in hs], axis=1), np.stack([h[1] for h in hs], axis=1)
            got = dens.evaluate_density_hessian(P, shells, fpts, **k2)
            cmp("evaluate_density_hessian(%s)" % dt, got, w, wa)
            if got.shape == w.shape:
                cmp("Hessian symmetric (%s)" % dt, got, np.swapaxes(got, 1, 2), 2 * wa)
                cmp("trace of the Hessian = Laplacian (%s)" % dt, np.trace(got, axis1=1, axis2=2),
                    dens.evaluate_density_laplacian(P, shells, fpts, **k2), 2 * np.trace(wa, axis1=1, axis2=2))
            for o in case["orders"]:
                w, wa = G.field(tabs["deriv_%d_%d_%d" % tuple(o)])
                cmp("evaluate_deriv_density(%s, %s)" % (o, dt), dens.evaluate_deriv_density(np.array(o), P, shells, fpts, **k2), w, wa)
            # kinetic-energy densities and the density itself (threshold chosen so that nothing is clipped or raised here
            # unless the exact value is negative beyond rounding; the rule itself is exercised in the threshold cases)
            w, wa = G.field(tabs["tplus"])
            rho, rhoa = G.field(tabs["deriv_0_0_0"])
            if case["psd"]:
                cmp("evaluate_posdef_kinetic_energy_density(%s)" % dt,
                    dens.evaluate_posdef_kinetic_energy_density(P, shells, fpts, threshold=1e-4 * (wa.max() + 1), **k2), np.maximum(w, 0), wa)
                gk, gka = G.field(tabs["genkin"], alpha)
                lap, lapa = G.field(tabs["lap"])
                cmp("evaluate_general_kinetic_energy_density(alpha=%r, %s)" % (alpha, dt),
                    dens.evaluate_general_kinetic_energy_density(P, shells, fpts, alpha, **k2), np.maximum(w, 0) + alpha * lap, gka)
        # the building block itself, with different orders on the two sides
        for o1, o2 in (((1, 0, 0), (0, 1, 0)), ((2, 0, 1), (0, 0, 0)), ((0, 1, 1), (1, 0, 2)), ((0, 0, 0), (0, 0, 0))):
            g, gabs = G.g(o1, o2)
            for dt in ("general", "direct"):
                cmp("evaluate_deriv_reduced_density_matrix(%s, %s, %s)" % (o1, o2, dt),
                    dens.evaluate_deriv_reduced_density_matrix(np.array(o1), np.array(o2), P, shells, fpts, deriv_type=dt, **kw), g, gabs)
        phi0, _ = G.phi((0, 0, 0))
        cmp("evaluate_density_using_evaluated_orbs", dens.evaluate_density_using_evaluated_orbs(P, phi0), rho, rhoa)
        if case["psd"]:
            cmp("evaluate_density", dens.evaluate_density(P, shells, fpts, threshold=1e-4 * (rhoa.max() + 1), **kw), np.maximum(rho, 0), rhoa)
            if rho.min() < -1e-9 * rhoa.max() or w.min() < -1e-9 * wa.max():
                res["violations"].append("oracle: a positive semi-definite density matrix gave a negative density")
        # ---- threshold rule: P = -eps |v><v| has exactly known negative values
        nb = P.shape[0]
        v = np.array([cg.val(cg.dyadic(0.3 + 0.1 * i, 8)) * (-1) ** i for i in range(nb)])
        Pn = -np.outer(v, v) * 2.0 ** -6
        Gn = Gamma(basis, pts, Pn, T)
        for fname, tab, half in (("evaluate_density", "deriv_0_0_0", False), ("evaluate_posdef_kinetic_energy_density", "tplus", True)):
            want, wabs = Gn.field(tabs[tab])
            neg = -want.min()                      # magnitude of the most negative value (exact up to 1e-15 relative)
            if not neg > 1e-6 * wabs.max() or neg < 1e-250:
                continue
            f = getattr(dens, fname)
            for factor, expect in ((4.0, "zero"), (1.5, "zero"), (1.0009765625, "zero"), (0.9990234375, "raise"), (0.6, "raise"), (0.25, "raise")):
                thr = neg * factor
                try:
                    got = f(Pn, shells, fpts, threshold=thr, **kw)
                    outcome = "zero" if np.all(got >= 0) and np.all(np.abs(got - np.maximum(want, 0)) <= 1e-9 * wabs + 1e-150) else "wrong values"
                except ValueError:
                    outcome = "raise"
                res["n"] += 1
                if outcome != expect:
                    res["violations"].append("%s threshold rule: most negative value %.6g, threshold %.6g (%.4g times its magnitude): "
                                             "expected %s, got %s" % (fname, -neg, thr, factor, "clipping to 0" if expect == "zero" else "ValueError", outcome))
        # ---- the same points given as float32 / as integers (exactly representable): same numbers
        ipts = np.array([[1, 0, -2], [0, 0, 0], [3, -1, 1]])
        for name, fn in (("evaluate_density_gradient", dens.evaluate_density_gradient), ("evaluate_density_laplacian", dens.evaluate_density_laplacian),
                         ("evaluate_density_hessian", dens.evaluate_density_hessian),
                         ("evaluate_deriv_density", lambda P_, b_, p_, **k_: dens.evaluate_deriv_density(np.array([1, 0, 1]), P_, b_, p_, **k_))):
            ref = fn(P, shells, ipts.astype(float), **kw)
            for alt, label in ((ipts.astype(np.float32), "float32"), (ipts, "integer")):
                try:
                    got = fn(P, shells, alt, **kw)
                except Exception as exc:  # noqa: BLE001
                    res["violations"].append("%s with %s points raised %s: %s" % (name, label, type(exc).__name__, exc))
                    continue
                res["n"] += 1
                if got.shape != ref.shape or not np.abs(got - ref).max() <= 1e-12 * (np.abs(ref).max() + 1e-300):
                    res["violations"].append("%s depends on the dtype of the points array: %s points give a result differing by %.3g from float64 points"
                                             % (name, label, float(np.abs(np.asarray(got, dtype=float) - ref).max()) if got.shape == ref.shape else float("nan")))
        # ---- exact zeros with a zero threshold: every function of an l >= 1 shell vanishes at its own centre, and the
        # gradient of an s function vanishes at its centre -- exactly, in any order of floating-point operations.  A value
        # that is exactly zero is not negative: it must be returned, not rejected.
        S = gb.Shell()
        cen = np.array([0.25, -0.5, 1.0])
        for fname, shell in (("evaluate_density", S(1, cen, np.array([[0.7], [0.4]]), np.array([1.5, 0.3]), "cartesian")),
                             ("evaluate_density", S(2, cen, np.array([[1.0]]), np.array([0.8]), "spherical")),
                             ("evaluate_posdef_kinetic_energy_density", S(0, cen, np.array([[0.6], [0.5]]), np.array([2.0, 0.4]), "cartesian"))):
            nbf = shell.num_seg_cont * (shell.num_cart if shell.coord_type == "cartesian" else shell.num_sph)
            res["n"] += 1
            try:
                got = getattr(dens, fname)(np.eye(nbf), [shell], cen[None, :], threshold=0.0)
                if not np.all(got == 0.0):
                    res["violations"].append("%s at the centre of an l=%d shell is %r, exactly 0 expected" % (fname, shell.angmom, got))
            except ValueError as exc:
                res["violations"].append("%s(threshold=0.0) raised for a value that is exactly zero (not negative): %s" % (fname, exc))
    else:
        st = gb.mod("gbasis.evals.stress_tensor")
        rows = [stack(["stress_%d_1" % i, "stress_%d_2" % i, "stress_%d_3" % i], alpha, beta) for i in (1, 2, 3)]
        w, wa = np.stack([r[0] for r in rows], axis=1), np.stack([r[1] for r in rows], axis=1)
        got = st.evaluate_stress_tensor(P, shells, fpts, alpha=alpha, beta=beta, **kw)
        cmp("evaluate_stress_tensor(alpha=%r, beta=%r)" % (alpha, beta), got, w, wa)
        if np.asarray(got).shape == w.shape:
            cmp("stress tensor symmetric", got, np.swapaxes(got, 1, 2), 2 * wa)
        w, wa = stack(["force_1", "force_2", "force_3"], alpha, beta)
        cmp("evaluate_ehrenfest_force(alpha=%r, beta=%r)" % (alpha, beta),
            st.evaluate_ehrenfest_force(P, shells, fpts, alpha=alpha, beta=beta, **kw), w, wa)
        rows = [stack(["ehess_%d_1" % j, "ehess_%d_2" % j, "ehess_%d_3" % j], alpha, beta) for j in (1, 2, 3)]
        w, wa = np.stack([r[0] for r in rows], axis=1), np.stack([r[1] for r in rows], axis=1)
        cmp("evaluate_ehrenfest_hessian(alpha=%r, beta=%r)" % (alpha, beta),
            st.evaluate_ehrenfest_hessian(P, shells, fpts, alpha=alpha, beta=beta, **kw), w, wa)
        cmp("evaluate_ehrenfest_hessian(symmetric=True)",
            st.evaluate_ehrenfest_hessian(P, shells, fpts, alpha=alpha, beta=beta, symmetric=True, **kw),
            (w + np.swapaxes(w, 1, 2)) / 2, (wa + np.swapaxes(wa, 1, 2)) / 2)
    return res


def run(pid, tier, seed, only_case=None):
    ctx = common.Ctx(pid, tier, seed)
    ctx.write_evidence = ctx.write_evidence and only_case is None
    tabs = run_mcfields(ctx)
    cases = [only_case] if only_case is not None else gen_cases(pid, tier, seed)
    for c in cases:
        c["tabs"] = tabs
    out = common.pmap(replay_case, cases)
    for c, r in zip(cases, out):
        cc = {k: v for k, v in c.items() if k != "tabs"}
        if common.impl_failure(ctx, r, cc, "fields", pid):
            continue
        ctx.replayed += 1
        ctx.evaluations += r["n"] - 1
        ctx.case_done((pid, c["id"], tuple((s["l"], len(s["exps"]), len(s["coeffs"][0]), s["type"]) for s in c["basis"]),
                       c.get("transform") is not None, c["psd"], c["alpha"], c["beta"]))
        ctx.note_dev("relative to the sum of absolute terms", r["dev"])
        for v in r["violations"]:
            ctx.violation({"function": v.split("(")[0].split(":")[0].strip()}, "case %d: %s" % (c["id"], v), {"module": "fields", "case": cc})
    ctx.extra["definition_tables_from_TLC"] = len(tabs)
    ctx.extra["exhaustive"] = True
    ctx.extra["exhaustive_note"] = "TLC part exhaustive (125 order triples, all tensor components, threshold grid); replay sampled"
    ctx.rule = ("seeded bases (1-4 shells, generalized, mixed types), PSD and indefinite dyadic density matrices, points on and off "
                "centres, alpha/beta from {0, 1/2, 1, generic}, square and rectangular transformations; distinct by shell tuple, "
                "transformation, definiteness and parameters")
    ctx.samples = [{k: v for k, v in cases[0].items() if k not in ("tabs", "P", "transform")}]
    ctx.assumptions = ["expected fields are assembled in double precision from exact basis-function derivatives; tolerance 1e-9 of the "
                       "sum of absolute terms", "TLC integer arithmetic for the formal coefficients"]
    return ctx.finish()
