"""C18 -- basis-set import preserves every shell and leaves its arguments intact.

TLC (MCBasisFile over BasisFile.tla): for EVERY small abstract file (<= 2 elements x <= 2 shells from a menu with
generalized and SP shells) x 12 layouts of the lines before the first element x comment / closing-line options x
both formats, parsing the rendered lines gives exactly the columns written (repaired line machine); the machine of
the tree before its repair must fail (negative control: 0 or 1 line before the first element).
Replay: every enumerated file is rendered to text (E / D / plain number formats) and parsed by the real
parse_nwchem / parse_gbs; seeded large files (1-5 elements, 1-8 shells, l up to k, 1-10 primitives, 1-6 columns, SP
shells, equal-exponent neighbours, comments, blank lines); make_contractions for molecules with repeated elements
and coordinate types as string / list / tuple with the SAME argument objects reused; a PySCF-style molecule.
"""
import os
import tempfile

import numpy as np

from .. import cases as cg
from .. import tlaparse, tlc
from . import common

LETTERS = "SPDFGHIK"
SCRATCH = os.path.join(tlc.BUILD, "files")


# ------------------------------------------------------------------------------------------ TLC
def run_model(ctx, variant, maxe, maxs, dump):
    d = tlc.scratch("bf")
    tlc.write_module(d, "MC_BF", "\nCONSTANTS MaxElems, MaxShells, Variant\nVARIABLES f, fmt, lines, cols\nINSTANCE MCBasisFile\n", extends=())
    cfg = 'CONSTANTS MaxElems = %d\nMaxShells = %d\nVariant = "%s"\nSPECIFICATION Spec\nINVARIANT RoundTripOK\n' % (maxe, maxs, variant)
    dp = os.path.join(d, "states")
    res = tlc.run(d, "MC_BF", cfg, workers=8, timeout=1800, extra=["-dump", dp] if dump else [])
    if variant == "pinned":
        tlc.cleanup(d)
        if res.ok:
            raise tlc.MachineryError("negative control: the pinned line machine passed the round trip")
        ctx.extra.setdefault("negative_controls_detected_by_TLC", []).append(
            "BasisFile!ParsePinned (first segment dropped only if it contains a newline) violates the round trip")
        return []
    if not res.ok:
        ctx.spec_violation("MCBasisFile", res)
    ctx.add_tlc("MCBasisFile(<=%d elements, <=%d shells): Parse(Render(f)) = Columns(f) for every file, layout and format" % (maxe, maxs), res)
    states = tlaparse.read_dump(dp + ".dump") if dump else []
    tlc.cleanup(d)
    return states


# ------------------------------------------------------------------------------------------ rendering
def exp_value(t):
    e, s, k = t
    return 2.0 ** (6 - k) * (1 + e / 4.0 + s / 16.0)


def coef_value(t):
    e, s, k, c = t
    return (-1) ** (k + c) * (0.125 * k + 0.25 * c + e / 64.0 + s / 32.0)


def fmt_num(x, style, rng=None, coef=False):
    """One number as text.  With an rng the spelling varies the way hand-edited and Fortran-written tables do: `.5` for `0.5`,
    `5.` for `5.0`, an explicit plus sign, `1.D+00` for `1.0000000000D+00`, and -- for coefficients only -- a whole number
    without a decimal point (`1`, `0`, `-1`)."""
    v = rng.random() if rng is not None else 1.0
    if style == "plain":      # fixed-point, no exponent part
        from decimal import Decimal
        t = format(Decimal(repr(float(x))), "f")
        t = t if "." in t else t + ".0"
        if v < 0.1 and t.startswith("0."):
            t = t[1:]
        elif v < 0.1 and t.startswith("-0."):
            t = "-" + t[2:]
        elif v < 0.25 and t.endswith(".0"):
            t = t[:-1] if not coef or v < 0.15 else t[:-2]
        elif v < 0.3 and not t.startswith("-"):
            t = "+" + t
        return t
    s = "%.10E" % x
    if v < 0.15:
        m, e = s.split("E")
        m = m.rstrip("0")
        s = m + "E" + e
    if style == "D":
        s = s.replace("E", "D")
    return s


def render_text(lines, fmt, style, expf=exp_value, coeff=coef_value, rng=None):
    out = []
    for ln in lines:
        k = ln["kind"]
        if k == "comment":
            out.append("#BASIS SET: (4s) -> [2s]" if fmt == "nwchem" else "! a comment")
        elif k == "blank":
            out.append("")
        elif k == "keyword":
            out.append('BASIS "ao basis" PRINT' if fmt == "nwchem" else "!----------------")
        elif k == "nwshell":
            out.append("%-2s    %s" % (ln["sym"], "".join(LETTERS[l] for l in ln["ls"])))
        elif k == "gelem":
            out.append("%-2s     0" % ln["sym"])
        elif k == "gshell":
            out.append("%s   %d   1.00" % ("".join(LETTERS[l] for l in ln["ls"]), ln["K"]))
        elif k == "row":
            out.append("      " + "       ".join([fmt_num(expf(ln["exp"]), style, rng)] + [fmt_num(coeff(c), style, rng, coef=True) for c in ln["coefs"]]))
        elif k == "stars":
            out.append("****")
        elif k == "end":
            out.append("END")
    return "\n".join(out) + "\n"


def flatten(parsed, order):
    """Parser output -> [(symbol, l, exps, column)] in file order."""
    out = []
    for sym in order:
        for (l, exps, coeffs) in parsed.get(sym, []):
            c = np.asarray(coeffs)
            if c.ndim == 1:
                c = c[:, None]
            for m in range(c.shape[1]):
                out.append((sym, int(l), np.asarray(exps, dtype=float), c[:, m]))
    return out


def check_parse(text, fmt, want, tag):
    """want: [(sym, l, exps list, coefs list)].  Returns a violation message or None."""
    from .. import gb
    os.makedirs(SCRATCH, exist_ok=True)
    fd, path = tempfile.mkstemp(dir=SCRATCH, suffix="." + fmt)
    with os.fdopen(fd, "w") as fh:
        fh.write(text)
    parsers = gb.mod("gbasis.parsers")
    try:
        try:
            parsed = (parsers.parse_nwchem if fmt == "nwchem" else parsers.parse_gbs)(path)
        except Exception as exc:  # noqa: BLE001
            return "%s: parser raised %s: %s on a well-formed %s file" % (tag, type(exc).__name__, exc, fmt)
    finally:
        os.unlink(path)
    order = []
    for w in want:
        if w[0] not in order:
            order.append(w[0])
    extra = [k for k in parsed if k not in order]
    if extra:
        return "%s: elements %s in the result are not in the file" % (tag, extra)
    got = flatten(parsed, order)
    if len(got) != len(want):
        missing = [s for s in order if s not in parsed]
        return "%s: %d coefficient columns returned, the file has %d%s" % (
            tag, len(got), len(want), " (elements %s are missing from the result)" % missing if missing else "")
    for n, (g, w) in enumerate(zip(got, want)):
        if g[0] != w[0] or g[1] != w[1]:
            return "%s: column %d is (%s, l=%d), the file has (%s, l=%d)" % (tag, n, g[0], g[1], w[0], w[1])
        if len(g[2]) != len(w[2]) or not np.array_equal(g[2], np.array(w[2])):
            return "%s: column %d (%s, l=%d): exponents %s, the file has %s" % (tag, n, w[0], w[1], g[2].tolist(), list(w[2]))
        if len(g[3]) != len(w[3]) or not np.array_equal(g[3], np.array(w[3])):
            return "%s: column %d (%s, l=%d): coefficients %s, the file has %s" % (tag, n, w[0], w[1], g[3].tolist(), list(w[3]))
    return None


def replay_states(chunk):
    out = []
    for n, s in chunk:
        style = ["E", "D", "plain"][n % 3]
        text = render_text(s["lines"], s["fmt"], style)
        want = [(c[0], c[1], [exp_value(e) for e in c[2]], [coef_value(x) for x in c[3]]) for c in s["cols"]]
        v = check_parse(text, s["fmt"], want, "enumerated file #%d (%d line(s) before the first element, %s numbers)" % (n, len(s["f"]["pre"]), style))
        out.append((n, v, text if v else None))
    return out


# ------------------------------------------------------------------------------------------ seeded large files
def random_file(seed, d):
    rng = cg.rng_for(seed, "C18file", d)
    syms = rng.sample(["H", "He", "Li", "C", "N", "O", "F", "Ne", "Na", "Cl", "K", "Fe", "Kr", "U"], rng.randint(1, 5))
    fmt = rng.choice(["nwchem", "gbs"])
    style = rng.choice(["E", "D", "plain"])
    npre = rng.choice([0, 1, 2, 3, 12])
    lines, want = [], []
    for _ in range(npre):
        lines.append({"kind": rng.choice(["comment", "blank", "comment", "keyword"])})
    for sym in syms:
        if rng.random() < 0.5:
            lines.append({"kind": "comment"})
        if fmt == "gbs":
            lines.append({"kind": "gelem", "sym": sym})
        prev = None
        for _ in range(rng.randint(1, 8)):
            sp = rng.random() < 0.2
            ls = [0, 1] if sp else [rng.randint(0, 7) if rng.random() < 0.6 else rng.randint(0, 1)]
            K = rng.randint(1, 10)
            M = 1 if sp else (rng.randint(1, 6) if fmt == "nwchem" else 1)
            if prev is not None and not sp and rng.random() < 0.3 and prev[0] == 1:
                ls, exps = [prev[1]], prev[2]            # same l and exponents as the previous shell (Gaussian94 merges those)
                K = len(exps)
            elif prev is not None and sp and prev[0] == 1 and prev[1] in (0, 1) and rng.random() < 0.6:
                exps = prev[2]                           # an SP block on the exponents of the S or P block in front of it
                K = len(exps)
            else:
                exps = sorted({float("%.7E" % (10 ** rng.uniform(-2, 5))) for _ in range(K)}, reverse=True)
                K = len(exps)
            cols = [[float("%.7E" % rng.uniform(-2, 2)) or 0.5 for _ in range(K)] for _ in range(M * len(ls))]
            for col in cols:                             # whole-number coefficients (1 for an uncontracted primitive, 0 as padding)
                if rng.random() < 0.25:
                    col[rng.randrange(K)] = rng.choice([1.0, -1.0, 2.0, 0.0 if K > 1 else 1.0])
            lines.append({"kind": "nwshell", "sym": sym, "ls": ls} if fmt == "nwchem" else {"kind": "gshell", "ls": ls, "K": K})
            for k in range(K):
                lines.append({"kind": "row", "exp": exps[k], "coefs": [cols[c][k] for c in range(len(cols))]})
                if rng.random() < 0.03:
                    lines.append({"kind": "blank"})
            for n, l in enumerate(ls):
                for m in range(M):
                    want.append((sym, l, exps, cols[m if len(ls) == 1 else n]))
            prev = (len(ls), ls[0], exps)
        if fmt == "gbs":
            lines.append({"kind": "stars"})
    if fmt == "nwchem" and rng.random() < 0.7:
        lines.append({"kind": "end"})
    text = render_text(lines, fmt, style, expf=lambda x: x, coeff=lambda x: x, rng=rng)
    return {"id": d, "fmt": fmt, "text": text, "want": want, "npre": npre, "style": style}


def replay_random(case):
    v = check_parse(case["text"], case["fmt"], case["want"],
                    "seeded %s file #%d (%d line(s) before the first element, %s numbers)" % (case["fmt"], case["id"], case["npre"], case["style"]))
    if v is None and case["id"] % 4 == 0:
        v = reread(case)
    return (case["id"], v)


def reread(case):
    """The parsers read the FILE: after the caller has edited the dictionary it got, and after the file at the same path has
    been replaced by another basis set, the next read returns what the file holds now."""
    from .. import gb
    other = random_file(case["id"] * 7919 + 13, case["id"] + 1)
    tries = 0
    while other["fmt"] != case["fmt"] and tries < 20:
        tries += 1
        other = random_file(case["id"] * 7919 + 13 + tries, case["id"] + 1)
    if other["fmt"] != case["fmt"]:
        return None
    parsers = gb.mod("gbasis.parsers")
    parse = parsers.parse_nwchem if case["fmt"] == "nwchem" else parsers.parse_gbs
    os.makedirs(SCRATCH, exist_ok=True)
    fd, path = tempfile.mkstemp(dir=SCRATCH, suffix="." + case["fmt"])
    os.close(fd)
    try:
        with open(path, "w") as fh:
            fh.write(case["text"])
        first = parse(path)
        for k in list(first):                       # the caller edits what it was given
            first[k] = first[k][:-1]
        first.pop(next(iter(first)), None)
        for label, text, want in (("after the caller edited the dictionary returned by the previous read", case["text"], case["want"]),
                                  ("after the file was replaced by another basis set", other["text"], other["want"]),
                                  ("after the first basis set was written back", case["text"], case["want"])):
            with open(path, "w") as fh:
                fh.write(text)
            order = []
            for w in want:
                if w[0] not in order:
                    order.append(w[0])
            got = flatten(parse(path), order)
            ok = len(got) == len(want) and all(g[0] == w[0] and g[1] == w[1] and np.array_equal(g[2], np.array(w[2])) and np.array_equal(g[3], np.array(w[3]))
                                               for g, w in zip(got, want))
            if not ok:
                return "seeded %s file #%d read again from the same path %s: the result is not what the file holds" % (case["fmt"], case["id"], label)
    finally:
        os.unlink(path)
    return None


# ------------------------------------------------------------------------------------------ make_contractions / from_pyscf
def snapshot(x):
    if isinstance(x, np.ndarray):
        return ("nd", x.dtype.str, x.shape, x.tobytes())
    if isinstance(x, (list, tuple)):
        return (type(x).__name__, tuple(snapshot(i) for i in x))
    if isinstance(x, dict):
        return ("dict", tuple((k, snapshot(v)) for k, v in x.items()))
    return ("v", repr(x))


def replay_molecule(d_seed):
    from .. import gb
    d, seed = d_seed
    rng = cg.rng_for(seed, "C18mol", d)
    parsers = gb.mod("gbasis.parsers")
    V = []
    nel = rng.randint(1, 3)
    syms = rng.sample(["H", "C", "O", "Kr"], nel)
    bd = {}
    for s in syms:
        bd[s] = []
        for _ in range(rng.randint(1, 3)):
            K, M = rng.randint(1, 3), rng.randint(1, 2)
            bd[s].append((rng.randint(0, 3), np.array(sorted([rng.uniform(0.1, 30) for _ in range(K)], reverse=True)),
                          np.array([[rng.uniform(-1, 1) or 0.3 for _ in range(M)] for _ in range(K)])))
    atoms = [rng.choice(syms) for _ in range(rng.randint(1, 5))]
    coords = np.array([[rng.uniform(-3, 3) for _ in range(3)] for _ in atoms])
    nshell = sum(len(bd[a]) for a in atoms)
    kind = ["str", "list", "tuple", "list_short"][d % 4]
    if kind == "str":
        ct = rng.choice(["cartesian", "spherical", "c", "p"])
        types = [ct] * nshell
    else:
        types = [rng.choice(["cartesian", "spherical", "c", "p"]) for _ in range(nshell)]
        ct = list(types) if kind.startswith("list") else tuple(types)
    canon = {"c": "cartesian", "p": "spherical", "cartesian": "cartesian", "spherical": "spherical"}
    args = (bd, atoms if d % 2 else tuple(atoms), coords, ct)
    before = snapshot(args)
    for rep in range(2):          # the SAME argument objects are used twice
        try:
            basis = parsers.make_contractions(*args)
        except Exception as exc:  # noqa: BLE001
            V.append("make_contractions(coord_types as %s, call %d with the same objects) raised %s: %s" % (type(ct).__name__, rep + 1, type(exc).__name__, exc))
            break
        if snapshot(args) != before:
            V.append("make_contractions changed its arguments (coord_types given as %s is now %r)" % (type(ct).__name__, args[3] if len(repr(args[3])) < 80 else "..."))
            break
        n = 0
        ok = len(basis) == nshell
        for ia, (a, xyz) in enumerate(zip(atoms, coords)):
            for (l, ex, co) in bd[a]:
                if not ok:
                    break
                sh = basis[n]
                co2 = co if co.ndim == 2 else co[:, None]
                ok = (sh.angmom == l and np.array_equal(sh.coord, xyz) and np.array_equal(sh.exps, ex) and np.array_equal(sh.coeffs, co2)
                      and sh.coord_type == canon[types[n]] and sh.icenter == ia)
                n += 1
        if not ok:
            V.append("make_contractions: shell %d does not carry the data, coordinate type and atom index of its atom (atoms %s, coord_types %s)" % (n - 1, atoms, kind))
            break
    # wrong length must be rejected without touching the arguments
    if kind != "str" and nshell > 1:
        bad = list(types)[:-1]
        b2 = snapshot(bad)
        try:
            parsers.make_contractions(bd, list(atoms), coords, bad)
            V.append("make_contractions accepted %d coordinate types for %d shells" % (len(bad), nshell))
        except ValueError:
            pass
        except Exception as exc:  # noqa: BLE001
            V.append("make_contractions with a short coord_types list raised %s instead of ValueError" % type(exc).__name__)
        if snapshot(bad) != b2:
            V.append("make_contractions changed a coord_types list it then rejected")
    # PySCF-style molecule
    class Mole:  # noqa: D401  (the wrapper checks the class name)
        pass
    mol = Mole()
    mol.cart = bool(d % 2)
    mol._atom = [(a, tuple(float(x) for x in xyz)) for a, xyz in zip(atoms, coords)]
    mol._basis = {s: [[l] + [[float(e)] + [float(c) for c in row] for e, row in zip(ex, co if co.ndim == 2 else co[:, None])] for (l, ex, co) in bd[s]] for s in syms}
    try:
        pb = gb.mod("gbasis.wrappers").from_pyscf(mol)
        n = 0
        ok = len(pb) == nshell
        for a, xyz in zip(atoms, coords):
            for (l, ex, co) in bd[a]:
                if not ok:
                    break
                sh = pb[n]
                co2 = co if co.ndim == 2 else co[:, None]
                ok = (sh.angmom == l and np.allclose(sh.coord, xyz, rtol=0, atol=0) and np.array_equal(sh.exps, ex) and np.array_equal(sh.coeffs, co2)
                      and sh.coord_type == ("cartesian" if mol.cart else "spherical"))
                n += 1
        if not ok:
            V.append("from_pyscf: shell %d does not preserve the data of the molecule" % (n - 1))
    except Exception as exc:  # noqa: BLE001
        V.append("from_pyscf raised %s: %s" % (type(exc).__name__, exc))
    return (d, V)


# ------------------------------------------------------------------------------------------ main
def run(pid, tier, seed, only_case=None):
    ctx = common.Ctx(pid, tier, seed)
    ctx.write_evidence = ctx.write_evidence and only_case is None
    quick = tier == "quick"
    if only_case is not None:
        if only_case["kind"] == "file":
            v = check_parse(only_case["text"], only_case["fmt"], [tuple(w) for w in only_case["want"]], "replayed file")
            if v:
                ctx.violation({"function": "parse_" + only_case["fmt"]}, v, {"module": "c18", "case": only_case})
        else:
            for v in replay_molecule((only_case["d"], only_case["seed"]))[1]:
                ctx.violation({"function": v.split(":")[0].split("(")[0]}, v, {"module": "c18", "case": only_case})
        ctx.replayed = 1
        return ctx.finish()
    res = common.run_models_parallel([lambda: run_model(ctx, "repaired", 2, 2, True), lambda: run_model(ctx, "pinned", 1, 1, False)])
    states = res[0]
    idx = list(enumerate(states))
    if quick:
        idx = [(n, s) for n, s in idx if len(s["f"]["pre"]) <= 1 or n % 5 == seed % 5]
    chunks = [idx[i::64] for i in range(64)]
    nfile = 0
    for ch in common.pmap(replay_states, chunks):
        if isinstance(ch, common.ImplFailure):
            raise tlc.MachineryError(ch.msg)
        for n, v, text in ch:
            nfile += 1
            ctx.replayed += 1
            s = states[n]
            ctx.case_done(("enum", n))
            if v:
                want = [(c[0], c[1], [exp_value(e) for e in c[2]], [coef_value(x) for x in c[3]]) for c in s["cols"]]
                ctx.violation({"function": "parse_" + s["fmt"], "lines_before_first_element": len(s["f"]["pre"])}, v,
                              {"module": "c18", "case": {"kind": "file", "fmt": s["fmt"], "text": text, "want": want}})
    rnd = [random_file(seed, d) for d in range(60 if quick else 600)]
    for case, (d, v) in zip(rnd, common.pmap(replay_random, rnd)):
        ctx.replayed += 1
        ctx.case_done(("seeded", d))
        if v:
            ctx.violation({"function": "parse_" + case["fmt"], "lines_before_first_element": case["npre"]}, v,
                          {"module": "c18", "case": {"kind": "file", "fmt": case["fmt"], "text": case["text"], "want": case["want"]}})
    mols = [(d, seed) for d in range(40 if quick else 400)]
    for (d, _), r in zip(mols, common.pmap(replay_molecule, mols)):
        if common.impl_failure(ctx, r, {"id": d, "kind": "mol", "d": d, "seed": seed}, "c18", "make_contractions"):
            continue
        ctx.replayed += 1
        ctx.case_done(("mol", d))
        for v in r[1]:
            ctx.violation({"function": v.split(":")[0].split("(")[0].split(" ")[0]}, "molecule %d: %s" % (d, v),
                          {"module": "c18", "case": {"kind": "mol", "d": d, "seed": seed}})
    ctx.extra.update({"enumerated_files_replayed": nfile, "seeded_files": len(rnd), "molecules": len(mols), "exhaustive": True,
                      "exhaustive_note": "the TLC model is exhaustive over its file space; quick replays all files with <= 1 line before the first "
                                         "element and a fifth of the rest, thorough replays all"})
    ctx.rule = ("abstract files enumerated by TLC (elements x shells x layouts x formats) rendered with E/D/plain numbers; seeded large "
                "files; seeded molecules with coordinate types as str/list/tuple; all distinct, all non-trivial")
    ctx.samples = [{"fmt": states[0]["fmt"], "text": render_text(states[0]["lines"], states[0]["fmt"], "E")}, {"fmt": rnd[0]["fmt"], "text": rnd[0]["text"][:600]}]
    ctx.assumptions = ["numbers are written with 11 significant digits or repr(), both exactly recoverable for the dyadic values used"]
    return ctx.finish()
