"""C14 -- electrostatic potential = nuclear minus electronic Coulomb potential.

TLC (Esp.tla): decision table of the nucleus mask over (d <, =, > tau) x (sign/magnitude of Z) x (tau = 0) x
(d = 0): the as-implemented (repaired) rule equals the specification `d < tau`; the rule of the tree before its
repair (Z/d > 1/tau) must differ (negative control); size rule of the density matrix with and without a
transformation.  ReplayRys gives the exact electronic term.
Replay: exact values (electronic part from the one-electron Rys definition), nuclei of either sign and magnitude
0.1..100, thresholds bracketing and equal to exactly representable point-nucleus distances, points on nuclei,
square and rectangular transformations.
"""
import os
from fractions import Fraction as Fr

import numpy as np

from .. import cases as cg
from .. import exact, layout, sev, tlaparse, tlc
from . import common

R = lambda x: [Fr(x).numerator, Fr(x).denominator]  # noqa: E731


def run_esp_model(ctx):
    d = tlc.scratch("esp")
    Ds = [Fr(0), Fr(1, 2), Fr(1), Fr(3, 2), Fr(2), Fr(3)]
    Ts = [Fr(0), Fr(1, 2), Fr(1), Fr(2)]
    Zs = [Fr(-2), Fr(-1, 2), Fr(1, 2), Fr(1), Fr(2), Fr(10)]
    sets = lambda xs: "{" + ", ".join("<<%d, %d>>" % (x.numerator, x.denominator) for x in xs) + "}"  # noqa: E731
    tlc.write_module(d, "MC_Esp", "\nVARIABLES d, tau, Z\nINSTANCE Esp WITH Ds <- %s, Taus <- %s, Zs <- %s, NBasis <- 1..4, NRows <- 1..5\n"
                     "ASSUME PinnedMaskDiffers\nASSUME PinnedSizeDiffers\n" % (sets(Ds), sets(Ts), sets(Zs)), extends=("Integers",))
    dump = os.path.join(d, "states")
    res = tlc.run(d, "MC_Esp", "SPECIFICATION Spec\nINVARIANT MaskOK\nINVARIANT SizeOK\n", workers=4, timeout=600,
                  extra=["-dump", dump])
    if not res.ok:
        ctx.spec_violation("Esp", res)
    ctx.add_tlc("Esp: nucleus-mask decision table (distance vs threshold x charge sign/magnitude x zero cases), size rule; "
                "pinned variants differ (negative controls)", res)
    states = tlaparse.read_dump(dump + ".dump")
    tlc.cleanup(d)
    return states


def gen_cases(tier, seed):
    quick = tier == "quick"
    out = []
    offs = [(3, 4, 0), (0, 3, 4), (4, 0, 3), (1, 2, 2), (2, 1, 2), (2, 2, 1), (2, 3, 6), (6, 2, 3), (0, 0, 1), (1, 4, 8)]
    for d in range(48 if quick else 120):
        rng = cg.rng_for(seed, "C14", d)
        nsh = rng.randint(1, 3)
        wide = d % 3 == 2
        cens = [cg.center(rng, 3.0 if wide else 1.5, 2) for _ in range(3)]
        # every sixth case: the whole system tens of bohr from the coordinate origin, with points 1e-3 bohr from a nucleus
        # (innermost shells of an atomic grid): Z/d must not lose digits to |r|^2-sized intermediates
        far = cg.far_origin(rng) if d % 6 == 4 else None
        if far is not None:
            cens = [cg.add(far, c) for c in cens]
        if wide:
            # contracted shells mixing a diffuse and a tight primitive (in either order), on centres a few bohr apart
            basis = []
            for k in range(max(2, nsh)):
                ex = [cg.exponent(rng, 0.15, 0.6, 10), cg.exponent(rng, 15.0, 60.0, 10)]
                if rng.random() < 0.5:
                    ex.reverse()
                basis.append({"l": rng.randint(0, 2), "center": cens[k % 3], "exps": ex, "coeffs": [[cg.coeff(rng)], [cg.coeff(rng)]],
                              "type": rng.choice(["cartesian", "spherical"])})
        else:
            basis = [cg.shell(rng, rng.randint(0, 3), K=rng.randint(1, 2), M=rng.randint(1, 2), hi=50.0, lo=0.1,
                              bits=24, cen=rng.choice(cens)) for _ in range(nsh)]
        if d % 3 == 0:
            basis[0]["l"] = 3           # an f shell in every third case: Boys orders up to 6
        if d % 6 == 3 and far is None:
            # two high-l shells so far apart that the Gaussian product prefactor is 1e-10..1e-13: the polynomial factors of
            # d and f functions keep phi_a phi_b / |r - R| above the tolerance
            ea, eb = cg.exponent(rng, 1.0, 3.0, 24), cg.exponent(rng, 1.0, 3.0, 24)
            mu = cg.val(ea) * cg.val(eb) / (cg.val(ea) + cg.val(eb))
            dist = cg.dyadic((rng.uniform(23.1, 30.0) / mu) ** 0.5, 12)
            basis = [{"l": 3, "center": [[0, 0]] * 3, "exps": [ea], "coeffs": [[cg.coeff(rng)]], "type": rng.choice(["cartesian", "spherical"])},
                     {"l": rng.choice([2, 3]), "center": [[0, 0], dist, [0, 0]], "exps": [eb], "coeffs": [[cg.coeff(rng)]],
                      "type": rng.choice(["cartesian", "spherical"])}]
            cens = [basis[0]["center"], basis[1]["center"], [[0, 0], cg.dyadic(cg.val(dist) / 2, 12), [0, 0]]]
        nn = rng.randint(1, 5)
        nuclei = []
        for k in range(nn):
            pos = rng.choice(cens) if k < 2 else cg.center(rng, 2.0, 2)
            if far is not None and k >= 2:
                pos = cg.add(far, pos)
            z = cg.val(cg.dyadic(rng.choice([0.1, 0.5, 1, 2, 7, 26, 100]) * rng.choice([1, 1, -1]) * rng.uniform(0.9, 1.1), 8))
            nuclei.append({"pos": [list(x) for x in pos], "Z": z})
        pts = []
        for _ in range(rng.randint(2, 5 if quick else 14)):
            nuc = rng.choice(nuclei)
            r = rng.random()
            if r < 0.15:
                p = [list(x) for x in nuc["pos"]]                      # on a nucleus
            elif r < 0.75:
                o = rng.choice(offs)
                sc = rng.choice([4, 8, 2] if far is None else [4, 2048, 4096])
                sg = [rng.choice([1, -1]) for _ in range(3)]
                p = [cg.dyadic(cg.val(c) + s * v / sc, 40) for c, v, s in zip(nuc["pos"], o, sg)]   # exactly representable distance
                if sc > 8:
                    # close to the nucleus the offset is GENERIC: with offsets on a coarse binary grid the rounding errors of
                    # |r|^2, |R|^2 and r.R coincide and cancel, and an expanded-square distance looks exact
                    p = [cg.dyadic(cg.val(c) + s * v / sc * rng.uniform(0.7, 1.3), 52) for c, v, s in zip(nuc["pos"], o, sg)]
            else:
                p = [list(x) for x in cg.center(rng, 3.0, 4)]
                if far is not None:
                    p = cg.add(far, p)
            pts.append(p)
        # points that put the Boys argument (a + b)|P - R|^2 of the highest-l primitive pair at prescribed intermediate values:
        # all orders m <= l_a + l_b of F_m are needed there and neither limit of F_m applies
        hi_ = sorted(basis, key=lambda s_: -s_["l"])[:2]
        sa_, sb_ = hi_[0], hi_[-1]
        if d % 3 == 0:
            sa_ = sb_ = basis[0]        # the f shell with itself
        ea, eb = cg.val(sa_["exps"][0]), cg.val(sb_["exps"][0])
        Pc = [(ea * cg.val(x) + eb * cg.val(y)) / (ea + eb) for x, y in zip(sa_["center"], sb_["center"])]
        for t in [rng.choice([21.0, 23.0, 26.5]), rng.choice([6.0, 11.0, 17.0, 29.0, 33.0, 37.0, 44.0, 60.0])]:
            v = [rng.uniform(-1, 1) for _ in range(3)]
            nv = sum(x * x for x in v) ** 0.5 or 1.0
            pts.append([cg.dyadic(pc + (t / (ea + eb)) ** 0.5 * x / nv, 30) for pc, x in zip(Pc, v)])
        nb = sum(layout.size(s) for s in basis)
        c = {"id": d + 1, "basis": basis, "nuclei": nuclei, "points": pts}
        if d % 3 != 0:
            rows = rng.choice([max(1, nb - 1), nb, nb + 2]) if d % 3 == 1 else nb
            c["transform"] = [[cg.val(cg.dyadic(rng.uniform(-1, 1), 8)) for _ in range(nb)] for _ in range(rows)]
            if d % 6 == 1:
                # a square transformation close to, but not, the identity (a renormalisation by 1 + O(1e-6))
                rows = nb
                c["transform"] = [[(1.0 + rng.choice([-1, 1]) * 2.0 ** -18 if i == j else 2.0 ** -30 * ((i * nb + j) % 7 - 3)) for j in range(nb)]
                                  for i in range(nb)]
            nb = rows
        A = np.array([[cg.val(cg.dyadic(rng.uniform(-1, 1), 8)) for _ in range(nb)] for _ in range(nb)])
        c["P"] = (A + A.T).tolist()
        if d % 3 == 0:
            # a density matrix with a single pair of functions of the f shell: the electronic term is one integral
            # phi_a phi_b / |r - R|, judged on its own scale rather than against the sum over all pairs
            n0 = layout.size(basis[0])
            a_, b_ = rng.randrange(n0), rng.randrange(n0)
            if d % 6 == 3 and far is None and len(basis) >= 2:
                b_ = n0 + rng.randrange(layout.size(basis[1]))       # the far-apart pair: one function of each shell
            E = np.zeros((nb, nb))
            E[a_, b_] += 1.0
            E[b_, a_] += 1.0
            c["P"] = E.tolist()
        out.append(c)
    return out


def replay_case(case):
    from .. import gb
    basis = case["basis"]
    pts = [[exact.dy(x) for x in p] for p in case["points"]]
    nuc = [([exact.dy(x) for x in n["pos"]], n["Z"]) for n in case["nuclei"]]
    P = np.array(case["P"])
    T = np.array(case["transform"]) if case.get("transform") is not None else None
    norms = [sev.contraction_norm(s) for s in basis]
    charges = [(p, -1.0) for p in pts]          # raw_block_1e returns -q <a|1/r|b>: q = -1 gives +<a|1/r|b>
    I, Iabs = layout.assemble([basis, basis], lambda ks: sev.raw_block_1e(basis[ks[0]], basis[ks[1]], charges), [norms, norms])
    Pao = P if T is None else T.T @ P @ T
    hart = np.einsum("ab,abp->p", Pao, I)
    hartabs = np.einsum("ab,abp->p", np.abs(Pao), Iabs)
    dist = [[sum((a - b) ** 2 for a, b in zip(p, n[0])) for n in nuc] for p in pts]     # exact squared distances
    fd = np.array([[float(x) for x in row] for row in dist]) ** 0.5
    shells = gb.make_basis(basis)
    f = gb.mod("gbasis.evals.electrostatic_potential").electrostatic_potential
    fpts = np.array([[float(x) for x in p] for p in pts])
    ncoords = np.array([[float(x) for x in n[0]] for n in nuc])
    Z = np.array([n[1] for n in nuc])
    kw = {} if T is None else {"transform": T}
    res = {"id": case["id"], "violations": [], "dev": 0.0, "n": 0}
    # thresholds: 0, beyond everything, and for every exactly representable distance: just below, equal, just above
    taus = {0.0, float(fd.max()) * 2 + 1.0}
    for x in fd.flatten():
        if x > 0 and float(Fr(x) ** 2) == float(Fr(x * x)) and Fr(x) ** 2 in [d for row in dist for d in row]:
            taus |= {x, x * (1 - 2.0 ** -20), x * (1 + 2.0 ** -20)}
        elif x > 0:
            taus |= {x * 0.9, x * 1.1}
    for tau in sorted(taus):
        want = hart * 0
        wabs = hartabs.copy()
        infinite = np.zeros(len(pts), dtype=bool)
        for ip in range(len(pts)):
            for ia in range(len(nuc)):
                d2 = dist[ip][ia]
                # specification: left out iff d < tau  (decided exactly: d^2 < tau^2 for d, tau >= 0)
                if d2 < Fr(tau) ** 2:
                    continue
                if d2 == 0:
                    infinite[ip] = True
                    continue
                want[ip] += Z[ia] / fd[ip, ia]
                wabs[ip] += abs(Z[ia]) / fd[ip, ia]
        want = want - hart
        import warnings
        err_before = np.geterr()
        with warnings.catch_warnings():
            warnings.simplefilter("ignore")
            got = f(shells, P, fpts, ncoords, Z, threshold_dist=float(tau), **kw)
        if np.geterr() != err_before:
            res["violations"].append("electrostatic_potential left numpy's floating-point error settings changed: %s -> %s" % (err_before, np.geterr()))
            np.seterr(**err_before)
        res["n"] += 1
        if got.shape != want.shape:
            res["violations"].append("electrostatic_potential: shape %s, expected %s" % (got.shape, want.shape))
            continue
        for ip in range(len(pts)):
            if infinite[ip]:
                if np.isfinite(got[ip]):
                    res["violations"].append("electrostatic_potential(threshold_dist=%r): point %d lies on a nucleus that is not masked, "
                                             "but the value %r is finite" % (tau, ip, got[ip]))
                continue
            tol = 1e-8 * wabs[ip] + 1e-300
            dev = abs(got[ip] - want[ip])
            res["dev"] = max(res["dev"], dev / (wabs[ip] + 1e-300))
            if not dev <= tol:
                near = [(ia, float(fd[ip, ia])) for ia in range(len(nuc))]
                res["violations"].append("electrostatic_potential(threshold_dist=%r%s): point %d is %r, specification value %r "
                                         "(nuclear charges %s at distances %s)" % (tau, ", transform %s" % (T.shape,) if T is not None else "",
                                                                                   ip, got[ip], want[ip], Z.tolist(), [round(x[1], 6) for x in near]))
                break
    return res


def run(pid, tier, seed, only_case=None):
    ctx = common.Ctx(pid, tier, seed)
    ctx.write_evidence = ctx.write_evidence and only_case is None
    states = run_esp_model(ctx)
    bad = 0
    for s in states:
        d, tau = Fr(*s["d"]), Fr(*s["tau"])
        # the harness' own mask rule (d^2 < tau^2) against Esp!MaskSpec on TLC's grid
        if (d * d < tau * tau) != (d < tau):
            bad += 1
    if bad:
        raise tlc.MachineryError("harness mask rule disagrees with Esp.tla")
    cases = [only_case] if only_case is not None else gen_cases(tier, seed)
    out = common.pmap(replay_case, cases)
    for c, r in zip(cases, out):
        if common.impl_failure(ctx, r, c, "c14", "electrostatic_potential"):
            continue
        ctx.replayed += 1
        ctx.evaluations += r["n"] - 1
        ctx.case_done(("c14", c["id"], tuple((s["l"], s["type"]) for s in c["basis"]), len(c["nuclei"]), c.get("transform") is not None))
        ctx.note_dev("relative to the sum of absolute terms", r["dev"])
        for v in r["violations"]:
            ctx.violation({"function": "electrostatic_potential"}, "case %d: %s" % (c["id"], v), {"module": "c14", "case": c})
    ctx.extra["exhaustive"] = False
    ctx.rule = ("seeded bases/density matrices/nuclei (either sign, 0.1..100), points on nuclei and at exactly representable distances; "
                "every case is evaluated for thresholds 0, beyond all distances, and just below / equal / just above every exact "
                "distance; distinct by shells, nuclei count and transformation")
    ctx.samples = [{k: v for k, v in cases[0].items() if k not in ("P", "transform")}]
    ctx.assumptions = ["electronic term from the Rys definition (fingerprinted against TLC in C03) with mpmath Boys function"]
    return ctx.finish()
