"""C03 -- point-charge and nuclear-attraction integrals.

TLC: ReplayRys evaluates the Gaussian-transform (Rys polynomial) DEFINITION of <a|1/r_C|b> at the exact
parameters of primitive pairs of every case (two primes) and checks on a rational grid that the two-electron
definition reduces to it.  Replay: every ordered pair (l_a, l_b) in 0..5 (so the internal a<->b swap of
gbasis is taken both ways), 1-5 charges of either sign on a centre / between / nearby / far away (Boys
arguments from 0 to > 1e4), all coordinate types; each charge separately with tolerance
1e-8*sqrt(V_aa V_bb); nuclear attraction = sum over the charges; shell blocks in both orientations.
"""
from fractions import Fraction as Fr

import numpy as np

from .. import cases as cg
from .. import exact, layout, sev, tlc
from . import common, rys


def run_os1e(ctx, prime, slip, shapes):
    """The as-implemented vertical + horizontal recursion (OS1e.tla) against the Rys definition on a rational grid."""
    d = tlc.scratch("os1e")
    body = """
CONSTANT P
E == INSTANCE Exact
G == INSTANCE Gauss
Ax(a, b, A, B, C) == G!Derive([a |-> E!FromRat(a), b |-> E!FromRat(b), A |-> E!FromRat(A), B |-> E!FromRat(B), C |-> E!FromRat(C)])
MCGrid3 == { <<Ax(<<1,2>>, <<3,1>>, <<0,1>>, <<1,1>>, <<1,2>>), Ax(<<1,2>>, <<3,1>>, <<1,2>>, <<-1,1>>, <<2,1>>), Ax(<<1,2>>, <<3,1>>, <<0,1>>, <<-3,2>>, <<-1,1>>)>>,
             <<Ax(<<7,2>>, <<1,1>>, <<0,1>>, <<0,1>>, <<0,1>>), Ax(<<7,2>>, <<1,1>>, <<1,1>>, <<1,1>>, <<3,1>>), Ax(<<7,2>>, <<1,1>>, <<-1,2>>, <<2,1>>, <<-1,2>>)>>,
             <<Ax(<<3,1>>, <<3,1>>, <<0,1>>, <<2,1>>, <<1,1>>), Ax(<<3,1>>, <<3,1>>, <<0,1>>, <<0,1>>, <<5,1>>), Ax(<<3,1>>, <<3,1>>, <<1,4>>, <<-1,4>>, <<0,1>>)>> }
MCShapes == {%s}
VARIABLES q, shape, vert, hor, pc, fresh
INSTANCE OS1e WITH Grid3 <- MCGrid3, Shapes <- MCShapes, Slip <- "%s"
""" % (", ".join("<<%d, %d>>" % s_ for s_ in shapes), slip)
    tlc.write_module(d, "MC_OS1e", body)
    try:
        res = tlc.run(d, "MC_OS1e", "CONSTANT P = %d\nSPECIFICATION Spec\nINVARIANT VertOK\nINVARIANT HorOK\nINVARIANT DoneOK\n" % prime,
                      workers=6, timeout=3000)
    finally:
        tlc.cleanup(d)
    if slip != "none":
        if res.ok:
            raise tlc.MachineryError("negative control: OS1e with a wrong coefficient in the z pass still equals the definition")
        ctx.extra.setdefault("negative_controls_detected_by_TLC", []).append("OS1e with (a+1)/(2p) in the z pass violates " + str(res.violated))
        return
    if not res.ok:
        ctx.spec_violation("OS1e", res)
    ctx.add_tlc("OS1e(P=%d): as-implemented vertical and horizontal recursion = Rys definition on a rational grid, shapes %s" % (prime, shapes), res)


def charge_positions(rng, basis, n):
    out = []
    for k in range(n):
        sh = rng.choice(basis)
        c = [exact.dy(x) for x in sh["center"]]
        r = rng.random()
        if r < 0.25:
            pos = sh["center"]                                             # exactly on a Gaussian centre
        elif r < 0.45:
            o = [exact.dy(x) for x in rng.choice(basis)["center"]]
            mid = [(a + b) / 2 for a, b in zip(c, o)]
            pos = [[m.numerator, 0] if m.denominator == 1 else cg.dyadic(float(m), 30) for m in mid]   # between
        elif r < 0.6:
            pos = cg.center(rng, 3.0, 3)                                    # nearby, generic
        elif r < 0.8:
            # at a distance that puts the Boys argument p |PC|^2 of the tightest primitive pair between 12 and 70
            # (the cross-over region between the small- and the large-argument behaviour of F_m)
            p = max(cg.val(e) for e in sh["exps"]) * 2
            dist = (rng.uniform(12.0, 70.0) / p) ** 0.5
            v = [rng.uniform(-1, 1) for _ in range(3)]
            nv = sum(x * x for x in v) ** 0.5 or 1.0
            pos = [cg.dyadic(float(ci) + dist * x / nv, 16) for ci, x in zip(c, v)]
        else:
            pos = cg.center(rng, rng.choice([30.0, 300.0]), 0)              # far away
        q = cg.val(cg.dyadic(rng.uniform(0.2, 8.0) * rng.choice([1, -1]), 8))
        out.append({"pos": [list(x) for x in pos], "q": q})
    return out


def gen_cases(tier, seed):
    quick = tier == "quick"
    bits = 24
    cases = []
    for la in range(6):
        for lb in range(6):
            for d in range(1 if quick else 4):
                rng = cg.rng_for(seed, "C03", "pair", la, lb, d)
                kmax = 4 if la + lb <= 4 else (2 if quick else 3)
                same = rng.random() < 0.2
                sa = cg.shell(rng, la, K=rng.randint(1, kmax), bits=bits)
                sb = cg.shell(rng, lb, K=rng.randint(1, kmax), bits=bits, cen=sa["center"] if same else None)
                chs = charge_positions(rng, [sa, sb], rng.randint(1, 3 if quick and la + lb > 5 else 5))
                if la + lb >= 4:
                    # charges that put the Boys argument of the first primitive pair at prescribed intermediate values: the
                    # orders m up to l_a + l_b of F_m(T) are all needed there, and neither limit of F_m applies
                    ea, eb = cg.val(sa["exps"][0]), cg.val(sb["exps"][0])
                    pp = ea + eb
                    P = [(ea * cg.val(x) + eb * cg.val(y)) / pp for x, y in zip(sa["center"], sb["center"])]
                    tl = [6.0, 11.0, 17.0, 23.0, 26.5, 29.0, 33.0, 37.0, 44.0, 60.0, 95.0]
                    for t in rng.sample(tl, 2 if quick else 4):
                        v = [rng.uniform(-1, 1) for _ in range(3)]
                        nv = sum(x * x for x in v) ** 0.5 or 1.0
                        dist = (t / pp) ** 0.5
                        chs.append({"pos": [cg.dyadic(pc + dist * x / nv, 20) for pc, x in zip(P, v)], "q": rng.choice([1.0, -2.5])})
                cases.append({"id": len(cases) + 1, "kind": "pair", "basis": [sa, sb], "charges": chs, "raw": [[0, 1], [1, 0]]})
    for la in range(2, 6):
        for lb in range(2, 6):
            if la + lb < 6 or (quick and (la + lb + seed) % 2):
                continue
            # the tail regime: two diffuse shells so far apart along ONE axis that the Gaussian product prefactor is
            # 1e-10..1e-15 while the polynomial factors of high angular momenta keep the integral above the tolerance
            # (a screening threshold is usually a power of ten, 1e-10 .. 1e-14: the largest neglected element lies just beyond
            # mu R^2 = -ln(threshold), so the highest angular momenta are placed right above each of these)
            cuts = [23.03, 25.33, 27.63, 29.93, 32.24]
            wins = [(t_ + 0.03, t_ + 0.5) for t_ in cuts] if la + lb >= 8 else [(23.0, 34.5)] + ([(29.95, 30.4)] if not quick else [])
            for lo_t, hi_t in wins:
                rng = cg.rng_for(seed, "C03", "tail", la, lb, lo_t)
                ea, eb = cg.exponent(rng, 0.3, 1.0, bits), cg.exponent(rng, 0.3, 1.0, bits)
                mu = cg.val(ea) * cg.val(eb) / (cg.val(ea) + cg.val(eb))
                dist = cg.dyadic((rng.uniform(lo_t, hi_t) / mu) ** 0.5, 12)
                ax = rng.randrange(3)
                cen_b = [[0, 0], [0, 0], [0, 0]]
                cen_b[ax] = dist
                sa = {"l": la, "center": [[0, 0]] * 3, "exps": [ea], "coeffs": [[cg.coeff(rng)]], "type": rng.choice(["cartesian", "spherical"])}
                sb = {"l": lb, "center": cen_b, "exps": [eb], "coeffs": [[cg.coeff(rng)]], "type": rng.choice(["cartesian", "spherical"])}
                mid = [[0, 0], [0, 0], [0, 0]]
                mid[ax] = cg.dyadic(cg.val(dist) * cg.val(ea) / (cg.val(ea) + cg.val(eb)) * rng.uniform(0.8, 1.2), 20)
                ch = [{"pos": mid, "q": 2.0}, {"pos": cg.center(rng, 2.0, 3), "q": -1.0}]
                cases.append({"id": len(cases) + 1, "kind": "pair", "basis": [sa, sb], "charges": ch, "raw": [[0, 1], [1, 0]]})
    for la, lb in [(1, 1), (2, 1), (1, 3), (0, 2), (3, 3), (4, 1), (2, 2), (5, 1)][: 8 if quick else 8]:
        # two DISTINCT centres 1e-3..1e-5 bohr apart, in a frame tens of bohr from the coordinate origin
        rng = cg.rng_for(seed, "C03", "near", la, lb)
        o = cg.far_origin(rng)
        sa = cg.shell(rng, la, K=rng.randint(1, 2), bits=bits, cen=o, hi=min(50.0, cg.exp_cap(la)))
        sb = cg.shell(rng, lb, K=rng.randint(1, 2), bits=bits, cen=cg.add(o, cg.tiny_offset(rng)), hi=min(50.0, cg.exp_cap(lb)))
        ch = [{"pos": cg.add(o, cg.center(rng, 2.0, 3)), "q": 1.5}, {"pos": o, "q": -2.0}]
        cases.append({"id": len(cases) + 1, "kind": "near", "basis": [sa, sb], "charges": ch, "raw": [[0, 1], [1, 0]]})
    for la, lb in [(0, 0), (0, 1), (1, 1), (0, 2)]:
        # core functions (the tightest exponents the property allows) on a nucleus ~100 bohr from the coordinate origin,
        # charges on the nucleus and 1e-3..1e-5 bohr off it: (alpha + beta) |P|^2 ~ 1e9, Boys arguments below one
        rng = cg.rng_for(seed, "C03", "core", la, lb)
        o = [cg.dyadic(rng.choice([-1, 1]) * (rng.choice([64.0, 96.5, 120.25]) + rng.uniform(-0.5, 0.5)), 30) for _ in range(3)]
        shs = []
        for l_ in (la, lb):
            cap = cg.exp_cap(l_)
            sh = cg.shell(rng, l_, K=2, M=rng.randint(1, 2), bits=bits, cen=o if l_ == la else cg.add(o, cg.tiny_offset(rng)))
            sh["exps"] = [cg.exponent(rng, 0.3 * cap, cap, bits), cg.exponent(rng, 0.01 * cap, 0.05 * cap, bits)]
            shs.append(sh)
        if rng.random() < 0.5:
            shs[1]["center"] = o
        ch = [{"pos": o, "q": 3.0}, {"pos": cg.add(o, cg.tiny_offset(rng)), "q": -1.5}, {"pos": cg.add(o, cg.tiny_offset(rng)), "q": 2.0},
              {"pos": cg.add(o, cg.center(rng, 0.05, 12)), "q": 1.0}]
        cases.append({"id": len(cases) + 1, "kind": "near", "basis": shs, "charges": ch, "raw": [[0, 1], [1, 0]]})
    for d in range(10 if quick else 60):
        rng = cg.rng_for(seed, "C03", "basis", d)
        n = rng.randint(1, 4)
        cens = [cg.center(rng) for _ in range(3)]
        basis = [cg.shell(rng, rng.randint(0, 3), K=rng.randint(1, 3), bits=bits,
                          cen=rng.choice(cens) if rng.random() < 0.6 else None) for _ in range(n)]
        c = {"id": len(cases) + 1, "kind": "basis", "basis": basis, "charges": charge_positions(rng, basis, rng.randint(1, 5))}
        if d % 3 == 0:
            ntot = sum(layout.size(s) for s in basis)
            c["transform"] = [[cg.val(cg.dyadic(rng.uniform(-1, 1), 8)) for _ in range(ntot)]
                              for _ in range(rng.choice([1, ntot, ntot + 1]))]
        cases.append(c)
    return cases


def fp_cases(case):
    """Primitive pairs of this case whose tables TLC evaluates: (shell pair 0-1, first and last primitive, first charge)."""
    b = case["basis"]
    k2 = 1 if len(b) > 1 else 0
    out = []
    sel = [(0, 0)]
    if len(b[0]["exps"]) > 1 or len(b[k2]["exps"]) > 1:
        sel.append((len(b[0]["exps"]) - 1, len(b[k2]["exps"]) - 1))
    for n, (i, j) in enumerate(sel):
        ch = case["charges"][min(n, len(case["charges"]) - 1)]
        out.append({"id": case["id"] * 10 + n, "kind": "1e", "e": [b[0]["exps"][i], b[k2]["exps"][j]],
                    "X": [b[0]["center"], b[k2]["center"], ch["pos"]], "l": [b[0]["l"], b[k2]["l"]],
                    "_sel": (0, k2, i, j, min(n, len(case["charges"]) - 1))})
    return out


def replay_case(case):
    from .. import gb
    basis = case["basis"]
    charges = [([exact.dy(x) for x in c["pos"]], c["q"]) for c in case["charges"]]
    norms = [sev.contraction_norm(s) for s in basis]
    res = {"id": case["id"], "violations": [], "dev": {}, "fp": 0}
    fps = {(f["_sel"]): f for f in case.get("fp", [])}

    def blk(ks):
        hook = None
        want = {k: v for k, v in fps.items() if k[0] == ks[0] and k[1] == ks[1]}
        if want:
            def hook(i, j, n, tabs):
                f = want.get((ks[0], ks[1], i, j, n))
                if f is None:
                    return
                for prime, tb in f["tlc"].items():
                    for x in range(3):
                        k, ok = rys.compare_tables(tabs[x], tb[str(x + 1)] if isinstance(tb, dict) and str(x + 1) in tb else tb[x + 1], int(prime), 2)
                        res["fp"] += k
                        if not ok:
                            res.setdefault("fp_bad", []).append((f["id"], prime, x))
        return sev.raw_block_1e(basis[ks[0]], basis[ks[1]], charges, tables_hook=hook)

    want, wantabs = layout.assemble([basis, basis], blk, [norms, norms])
    shells = gb.make_basis(basis)
    coords = np.array([[float(x) for x in c[0]] for c in charges])
    q = np.array([c[1] for c in charges])
    T = np.array(case["transform"]) if case.get("transform") is not None else None
    pci = gb.mod("gbasis.integrals.point_charge").point_charge_integral
    nea = gb.mod("gbasis.integrals.nuclear_electron_attraction").nuclear_electron_attraction_integral
    if T is not None:
        want = np.einsum("ia,jb,abn->ijn", T, T, want)
        wantabs = np.einsum("ia,jb,abn->ijn", np.abs(T), np.abs(T), wantabs)
    got = pci(shells, coords, q, transform=T) if T is not None else pci(shells, coords, q)
    V = res["violations"]
    if got.shape != want.shape:
        V.append("point_charge_integral: shape %s, expected %s" % (got.shape, want.shape))
        return res
    n = want.shape[0]
    dg = np.sqrt(np.abs(want[np.arange(n), np.arange(n), :]))          # (n, charges)
    tol = 1e-8 * dg[:, None, :] * dg[None, :, :] + 1e-13 * wantabs
    dev = np.abs(got - want)
    res["dev"]["point charge / sqrt(V_aa V_bb)"] = float((dev / (dg[:, None, :] * dg[None, :, :] + 1e-300)).max())
    bad = ~(dev <= tol)
    if bad.any():
        idx = np.unravel_index(np.argmax(np.where(bad, dev / tol, 0)), dev.shape)
        V.append("point_charge_integral: element %s (charge %d at %s) is %r, exact value %r (tolerance %.3g); %d elements differ"
                 % (idx[:2], idx[2], [float(x) for x in charges[idx[2]][0]], got[idx], want[idx], tol[idx], int(bad.sum())))
    g2 = nea(shells, coords, q, transform=T) if T is not None else nea(shells, coords, q)
    w2 = want.sum(axis=2)
    tol2 = tol.sum(axis=2)
    bad2 = ~(np.abs(g2 - w2) <= tol2) if g2.shape == w2.shape else np.array([True])
    if bad2.any():
        V.append("nuclear_electron_attraction_integral is not the sum of the point-charge arrays over the nuclei "
                 "(max deviation %.3g)" % (float(np.abs(g2 - w2).max()) if g2.shape == w2.shape else float("nan")))
    for (k1, k2) in case.get("raw", []):
        raw, rawabs = sev.raw_block_1e(basis[k1], basis[k2], charges)
        cls = gb.mod("gbasis.integrals.point_charge").PointChargeIntegral
        g = cls.construct_array_contraction(shells[k1], shells[k2], coords, q)
        # judge the block after normalisation, on the scale the property names
        nm1, nm2 = norms[k1], norms[k2]
        if np.shape(g) != raw.shape:
            V.append("PointChargeIntegral.construct_array_contraction(shell %d, shell %d): shape %s, expected %s" % (k1, k2, np.shape(g), raw.shape))
            continue
        gN = g * shells[k1].norm_cont[:, :, None, None, None] * shells[k2].norm_cont[None, None, :, :, None]   # the shells' own constants
        rN = raw * nm1[:, :, None, None, None] * nm2[None, None, :, :, None]
        rNabs = rawabs * nm1[:, :, None, None, None] * nm2[None, None, :, :, None]
        d1 = np.sqrt(np.abs(_diag_block(basis[k1], charges, nm1)))   # (M1, L1, N)
        d2 = np.sqrt(np.abs(_diag_block(basis[k2], charges, nm2)))
        tolb = 1e-8 * d1[:, :, None, None, :] * d2[None, None, :, :, :] + 1e-13 * rNabs
        if gN.shape != rN.shape or (~(np.abs(gN - rN) <= tolb)).any():
            V.append("PointChargeIntegral.construct_array_contraction(shell %d, shell %d): max deviation %.3g from the exact block"
                     % (k1, k2, float(np.abs(gN - rN).max()) if gN.shape == rN.shape else float("nan")))
    return res


def _diag_block(sh, charges, nm):
    raw, _ = sev.raw_block_1e(sh, sh, charges)
    M, L = raw.shape[0], raw.shape[1]
    out = np.zeros((M, L, raw.shape[4]))
    for m in range(M):
        for a in range(L):
            out[m, a] = raw[m, a, m, a] * nm[m, a] ** 2
    return out


def run(pid, tier, seed, only_case=None):
    ctx = common.Ctx(pid, tier, seed)
    ctx.write_evidence = ctx.write_evidence and only_case is None
    cases = [only_case] if only_case is not None else gen_cases(tier, seed)
    fl = []
    sums = set()
    for c in cases:
        c.pop("fp", None)
        fps = fp_cases(c)
        c["fp"] = fps
        fl += fps
        for f in fps:
            sums.add((exact.dy(f["e"][0]) + exact.dy(f["e"][1])).numerator)
    primes = rys.pick_primes(sums)
    spec_cases = [{k: v for k, v in f.items() if not k.startswith("_")} for f in fl]
    jobs = [lambda: rys.run_replayrys(ctx, spec_cases, primes[0], 6), lambda: rys.run_replayrys(ctx, spec_cases, primes[1], 6)]
    if only_case is None:
        shapes = [(0, 0), (1, 0), (1, 1), (2, 0), (2, 1)] + ([] if tier == "quick" else [(2, 2), (3, 1), (3, 0)])
        jobs += [lambda: run_os1e(ctx, primes[0], "none", shapes), lambda: run_os1e(ctx, primes[0], "coef", [(2, 1)])]
    r = common.run_models_parallel(jobs)
    for f in fl:
        f["tlc"] = {str(primes[0]): r[0][f["id"]], str(primes[1]): r[1][f["id"]]}
    order = sorted(range(len(cases)), key=lambda i: -sum(s["l"] for s in cases[i]["basis"]))
    out = common.pmap(replay_case, [cases[i] for i in order])
    fp = 0
    for i, rr in zip(order, out):
        c = cases[i]
        cc = {k: v for k, v in c.items() if k != "fp"}
        if common.impl_failure(ctx, rr, cc, "c03", "point_charge_integral"):
            continue
        if rr.get("fp_bad"):
            raise tlc.MachineryError("harness Rys tables disagree with TLC: %s" % rr["fp_bad"])
        fp += rr["fp"]
        ctx.replayed += 1
        ctx.case_done(("c03", c["kind"], tuple((s["l"], len(s["exps"]), len(s["coeffs"][0]), s["type"]) for s in c["basis"]),
                       len(c["charges"])))
        for k, v in rr["dev"].items():
            ctx.note_dev(k, v)
        for v in rr["violations"]:
            ctx.violation({"function": v.split(":")[0].split("(")[0]}, "case %d: %s" % (c["id"], v), {"module": "c03", "case": cc})
    ctx.extra["rys_polynomials_fingerprinted_against_TLC"] = fp
    ctx.extra["primes"] = primes
    ctx.extra["exhaustive"] = False
    ctx.rule = ("every ordered pair (l_a, l_b) <= 5 enumerated with seeded dyadic shells and 1-5 charges (on a centre, between "
                "centres, nearby, 30-300 bohr away; both signs), plus whole bases of 1-4 shells with and without a transformation; "
                "distinct by shell tuple and number of charges")
    ctx.samples = [{k: v for k, v in cases[7].items() if k != "fp"}] if len(cases) > 7 else []
    ctx.assumptions = ["Boys function F_m(T) evaluated by mpmath (incomplete gamma, 40 digits) at exact T",
                       "TLC residues modulo two primes stand for the rational Rys polynomials"]
    return ctx.finish()
