"""C19 -- calls are pure: arguments, shells and global numerical state are never changed; results depend only
on the argument values; a shell is unit-normalised after assign_norm_cont.

TLC: (1) Session.tla exhaustively (2 shells, 2 arrays, 1 list, 4 functions, depth 7): Purity, MemoStable,
AfterAssign, ErrStateKept; the variant in which make_contractions pops the caller's list must violate Purity
(negative control).  (2) `-simulate` produces behaviours (call sequences over all public integral / evaluation /
density / import functions, valid and deliberately invalid, interleaved with parameter updates, renormalisation
and array overwrites) which the harness executes on real shared objects.  (3) Every executed behaviour is
recorded -- value ids of EVERY live object and of numpy's error state before and after each step, result ids --
and the recorded traces are validated against the specification by Trace_Session.tla (NotStuck).
"""
import hashlib
import json
import os

import numpy as np

from .. import cases as cg
from .. import tlaparse, tlc
from . import common

SHELLS = ["S1", "S2", "S3"]
ARRAYS = ["PTS", "PT1", "DM", "CHG", "NUCC", "ORG", "ORD", "TRF", "MCOORD"]
LISTS = ["CT"]
B = ("S1", "S2", "S3")
FUNCS = {
    "overlap": B, "overlap_screened": B, "overlap_asym": B, "kinetic": B, "momentum": B, "angmom": B,
    "moment": B + ("ORG", "ORD"), "point_charge": B + ("NUCC", "CHG"), "nuclear": B + ("NUCC", "CHG"),
    "eri": ("S1", "S3"), "eval_basis": B + ("PTS",), "eval_deriv": B + ("PTS", "ORD"), "eval_deriv_direct": B + ("PTS",),
    "overlap_lincomb": B + ("TRF",), "overlap_screened0": B,
    # a points array holding ONE point (numpy helpers such as ascontiguousarray copy only when they have to)
    "eval_deriv_direct1": B + ("PT1",), "gradient_direct1": B + ("DM", "PT1"), "eval_basis1": B + ("PT1",), "esp1": B + ("DM", "PT1", "NUCC", "CHG"),
    "density": B + ("DM", "PTS"), "gradient": B + ("DM", "PTS"), "laplacian": B + ("DM", "PTS"), "hessian": B + ("DM", "PTS"),
    "posdef_ke": B + ("DM", "PTS"), "general_ke": B + ("DM", "PTS"), "stress": B + ("DM", "PTS"), "force": B + ("DM", "PTS"),
    "ehess": B + ("DM", "PTS"), "esp": B + ("DM", "PTS", "NUCC", "CHG"),
    "make_contractions": ("CT", "MCOORD"), "parse_nwchem": (), "generate_transformation": (),
    # methods of LONG-LIVED integral / evaluation objects (created once per behaviour, asked again and again): they answer as
    # the public function of the same name does (Session!Canon)
    "inst_overlap": B, "inst_kinetic": B, "inst_momentum": B, "inst_angmom": B, "inst_moment": B + ("ORG", "ORD"),
    "inst_point_charge": B + ("NUCC", "CHG"), "inst_eval_basis": B + ("PTS",),
    # deliberately invalid requests: every one must raise and still leave everything untouched
    "bad_moment_orders": B + ("ORG",), "bad_density_shape": B + ("PTS",), "bad_esp_threshold": B + ("DM", "PTS", "NUCC", "CHG"),
    "bad_points": B + ("DM",), "bad_make_contractions": ("CT", "MCOORD"), "bad_direct_order": B + ("PTS",),
    "bad_density_negative": B + ("PTS",), "bad_coord_types": B,
    # rejected parameter updates of a shell: the assignment must raise and leave the shell as it was
    "bad_set_coeffs": ("S1",), "bad_set_exps": ("S2",), "bad_set_coord": ("S3",), "bad_set_angmom": ("S1",),
}
RAISES = sorted(f for f in FUNCS if f.startswith("bad_"))
CANON = {f: (f[5:] if f.startswith("inst_") else f) for f in FUNCS}
INST = {"inst_overlap": ("gbasis.integrals.overlap", "Overlap"), "inst_kinetic": ("gbasis.integrals.kinetic_energy", "KineticEnergyIntegral"),
        "inst_momentum": ("gbasis.integrals.momentum", "MomentumIntegral"), "inst_angmom": ("gbasis.integrals.angular_momentum", "AngularMomentumIntegral"),
        "inst_moment": ("gbasis.integrals.moment", "Moment"), "inst_point_charge": ("gbasis.integrals.point_charge", "PointChargeIntegral"),
        "inst_eval_basis": ("gbasis.evals.eval", "Eval")}


def canon_tla():
    return "[" + ", ".join("%s |-> \"%s\"" % (f, c) for f, c in CANON.items()) + "]"
MAXV = 3


def constants_module(d, name, pop):
    args = "[" + ", ".join("%s |-> %s" % (f, tlc.tla_value(list(a))) for f, a in FUNCS.items()) + "]"
    body = ("\nVARIABLES val, npErr, memo, last\nMCCanon == " + canon_tla() + "\nMCArgs == %s\nINSTANCE Session WITH Shells <- %s, Arrays <- %s, Lists <- %s,\n"
            "  Funcs <- %s, ArgsOf <- MCArgs, RaisesF <- %s, MaxVersions <- %d, PopVariant <- %s, Canon <- MCCanon\n"
            % (args, tlc.tla_value(set(SHELLS)), tlc.tla_value(set(ARRAYS)), tlc.tla_value(set(LISTS)),
               tlc.tla_value(set(FUNCS)), tlc.tla_value(set(RAISES)), MAXV, "TRUE" if pop else "FALSE"))
    tlc.write_module(d, name, body, extends=("Integers", "Sequences", "TLC"))


def run_small_model(ctx, pop):
    d = tlc.scratch("ses")
    body = ('\nVARIABLES val, npErr, memo, last\nMCArgs == [overlap |-> <<"S1", "S2">>, density |-> <<"A1", "S1", "A2">>, '
            'make |-> <<"L1", "A1">>, bad |-> <<"A2">>]\nINSTANCE Session WITH Shells <- {"S1", "S2"}, Arrays <- {"A1", "A2"}, '
            'Lists <- {"L1"}, Funcs <- {"overlap", "density", "make", "bad"}, ArgsOf <- MCArgs, RaisesF <- {"bad"}, MaxVersions <- 2, '
            'Canon <- [overlap |-> "overlap", density |-> "density", make |-> "make", bad |-> "bad"], PopVariant <- %s\nDepth == TLCGet("level") <= 7\n' % ("TRUE" if pop else "FALSE"))
    tlc.write_module(d, "MC_S", body, extends=("Integers", "Sequences", "TLC"))
    cfg = "SPECIFICATION Spec\nINVARIANT AfterAssign\nINVARIANT ErrStateKept\nPROPERTY Purity\nPROPERTY MemoStable\nCONSTRAINT Depth\n"
    res = tlc.run(d, "MC_S", cfg, workers=8, timeout=1800)
    tlc.cleanup(d)
    if pop:
        if res.ok:
            raise tlc.MachineryError("negative control: Session with MakeContractionsPop satisfies Purity")
        ctx.extra.setdefault("negative_controls_detected_by_TLC", []).append("Session with MakeContractionsPop violates Purity")
        return
    if not res.ok:
        ctx.spec_violation("Session", res)
    ctx.add_tlc("Session(2 shells, 2 arrays, 1 list, 4 functions, depth 7): Purity, MemoStable, AfterAssign, ErrStateKept", res)


def simulate(ctx, num, depth, seed):
    d = tlc.scratch("sim")
    constants_module(d, "MC_Sim", False)
    os.makedirs(os.path.join(d, "tr"))
    res = tlc.run(d, "MC_Sim", "SPECIFICATION Spec\n", workers=1, timeout=1800,
                  simulate="file=%s,num=%d" % (os.path.join(d, "tr", "b"), num), extra=["-depth", str(depth), "-seed", str(seed + 1)])
    ctx.add_tlc("Session -simulate (num=%d, depth=%d): behaviours over %d public functions, parameter updates, renormalisation, "
                "overwrites" % (num, depth, len(FUNCS)), res)
    behaviours = []
    for f in sorted(os.listdir(os.path.join(d, "tr"))):
        steps = [st["last"] for _, st in tlaparse.read_sim_trace(os.path.join(d, "tr", f)) if "last" in st]
        steps = [s for s in steps if s[0] != "init"]
        if steps:
            behaviours.append(steps)
    tlc.cleanup(d)
    return behaviours


# ------------------------------------------------------------------------------------------ real objects
class World:
    def __init__(self, seed, n):
        from .. import gb
        self.gb = gb
        rng = cg.rng_for(seed, "C19world", n)
        self.rng = rng
        S = gb.Shell()
        self.ptab = {}
        specs = {"S1": (1, 2, 1, "cartesian"), "S2": (2, 1, 2, "spherical"), "S3": (0, 2, 1, "cartesian")}
        self.obj = {}
        for name, (l, K, M, typ) in specs.items():
            vers = []
            for v in range(MAXV):
                vers.append((np.array(sorted([rng.uniform(0.2, 6.0) for _ in range(K)], reverse=True)),
                             np.array([[rng.uniform(0.2, 1.5) * rng.choice([1, -1]) for _ in range(M)] for _ in range(K)])))
            self.ptab[name] = vers
            self.obj[name] = S(l, np.array([rng.uniform(-1, 1) for _ in range(3)]), vers[0][1].copy(), vers[0][0].copy(), typ)
        nb = sum((s.num_cart if s.coord_type == "cartesian" else s.num_sph) * s.num_seg_cont for s in self.basis())
        A = rng_matrix(rng, nb, nb)
        self.atab = {
            "PTS": [rng_matrix(rng, 4, 3) * 1.5 for _ in range(MAXV)],
            "PT1": [rng_matrix(rng, 1, 3) * 1.5 for _ in range(MAXV)],
            # symmetric only up to noise the library's own np.allclose test accepts (not bit for bit)
            "DM": [(lambda a, e: a @ a.T + 1e-10 * (e - e.T))(rng_matrix(rng, nb, nb), rng_matrix(rng, nb, nb)) for _ in range(MAXV)],
            "CHG": [np.array([rng.uniform(0.5, 3.0) for _ in range(2)]) for _ in range(MAXV)],
            "NUCC": [rng_matrix(rng, 2, 3) * 2 for _ in range(MAXV)],
            "ORG": [np.array([rng.uniform(-1, 1) for _ in range(3)]) for _ in range(MAXV)],
            "ORD": [np.array(o) for o in ([1, 0, 2], [0, 1, 1], [2, 0, 0])],
            "TRF": [rng_matrix(rng, 3, nb) for _ in range(MAXV)],
            "MCOORD": [rng_matrix(rng, 2, 3) for _ in range(MAXV)],
        }
        for k, v in self.atab.items():
            self.obj[k] = v[0].copy()
        self.obj["CT"] = ["spherical", "cartesian", "p", "c"]
        self.basis_dict = {"H": [(0, np.array([3.0, 0.5]), np.array([[0.4], [0.7]])), (1, np.array([0.8]), np.array([[1.0]]))]}
        self.ids = {}
        self.results = {}
        self.nwfile = os.path.join(gb.REPO, "tests", "data_sto6g.nwchem")

    def basis(self):
        return [self.obj[s] for s in SHELLS]

    def inst(self, f):
        """The long-lived object behind an inst_ function (dropped when a shell object is replaced)."""
        if not hasattr(self, "_inst"):
            self._inst = {}
        if f not in self._inst:
            modname, clsname = INST[f]
            self._inst[f] = getattr(self.gb.mod(modname), clsname)(self.basis())
        return self._inst[f]

    # ---- value identity ----------------------------------------------------------------------
    def _id(self, kind, blob):
        """Content identity as a string; the parent process turns the strings of ALL behaviours into small integers."""
        return "%s#%s" % (kind, hashlib.sha1(blob).hexdigest()[:16])

    def value(self, name):
        o = self.obj[name]
        if name in SHELLS:
            p = b"|".join([repr(o.angmom).encode(), o.coord.tobytes(), o.exps.tobytes(), o.coeffs.tobytes(),
                           o.coord_type.encode(), repr(o.icenter).encode()])
            return [self._id("par:" + name, p), self._id("norm:" + name, o.norm_cont.tobytes() + repr(o.norm_cont.shape).encode())]
        if name in LISTS:
            return "EMPTY" if len(o) == 0 else self._id("list:" + name, repr(o).encode())
        return self._id("arr:" + name, o.tobytes() + repr((o.shape, o.dtype.str)).encode())

    def snapshot(self):
        return {n: self.value(n) for n in SHELLS + ARRAYS + LISTS}

    def err_id(self):
        e = tuple(sorted(np.geterr().items()))
        return self._id("err", repr(e).encode()) if e != self.err0 else "ERR0"

    def fingerprint(self, out):
        """A result as something the parent can compare to 1e-12 across processes: exception class, or shape + projections
        of the array on fixed pseudo-random directions."""
        if isinstance(out, str):
            return out
        a = np.asarray(out)
        flat = np.concatenate([a.real.ravel(), a.imag.ravel()]) if np.iscomplexobj(a) else a.astype(float).ravel()
        n = flat.size
        k = np.arange(1, n + 1, dtype=float)
        proj = [float(np.nansum(flat * np.cos(0.37 * j * k + j))) for j in range(1, 7)] + [float(np.nansum(np.abs(flat))), float(np.isnan(flat).sum())]
        return [list(a.shape)] + proj

    def result_id(self, f, key, out):
        """Results of equal requests are compared to 1e-12 relative (not bitwise)."""
        lst = self.results.setdefault((f, key), [])
        for rid, ref in lst:
            if isinstance(ref, str) or isinstance(out, str):
                if ref == out:
                    return rid
            elif ref.shape == out.shape and np.allclose(ref, out, rtol=1e-12, atol=1e-300, equal_nan=True):
                return rid
        rid = len(lst) + 1
        lst.append((rid, out))
        return rid

    # ---- the public calls --------------------------------------------------------------------
    def call(self, f):
        m = self.gb.mod
        o = self.obj
        b = self.basis()
        D = "gbasis.evals.density"
        ST = "gbasis.evals.stress_tensor"
        table = {
            "overlap": lambda: m("gbasis.integrals.overlap").overlap_integral(b),
            "overlap_screened": lambda: m("gbasis.integrals.overlap").overlap_integral(b, tol_screen=1e-3),
            "inst_overlap": lambda: self.inst(f).construct_array_mix([s_.coord_type for s_ in b]),
            "inst_kinetic": lambda: self.inst(f).construct_array_mix([s_.coord_type for s_ in b]),
            "inst_momentum": lambda: self.inst(f).construct_array_mix([s_.coord_type for s_ in b]),
            "inst_angmom": lambda: self.inst(f).construct_array_mix([s_.coord_type for s_ in b]),
            "inst_moment": lambda: self.inst(f).construct_array_mix([s_.coord_type for s_ in b], moment_coord=o["ORG"], moment_orders=o["ORD"].reshape(1, 3)),
            "inst_point_charge": lambda: self.inst(f).construct_array_mix([s_.coord_type for s_ in b], points_coords=o["NUCC"], points_charge=o["CHG"]),
            "inst_eval_basis": lambda: self.inst(f).construct_array_mix([s_.coord_type for s_ in b], points=o["PTS"]),
            "overlap_screened0": lambda: m("gbasis.integrals.overlap").overlap_integral(b, tol_screen=0.0),
            "eval_deriv_direct1": lambda: m("gbasis.evals.eval_deriv").evaluate_deriv_basis(b, o["PT1"], np.array([1, 0, 0]), deriv_type="direct"),
            "gradient_direct1": lambda: m(D).evaluate_density_gradient(o["DM"], b, o["PT1"], deriv_type="direct"),
            "eval_basis1": lambda: m("gbasis.evals.eval").evaluate_basis(b, o["PT1"]),
            "esp1": lambda: m("gbasis.evals.electrostatic_potential").electrostatic_potential(b, o["DM"], o["PT1"], o["NUCC"], o["CHG"]),
            "overlap_asym": lambda: m("gbasis.integrals.overlap_asymm").overlap_integral_asymmetric(b[:2], b[1:]),
            "overlap_lincomb": lambda: m("gbasis.integrals.overlap").overlap_integral(b, transform=o["TRF"]),
            "kinetic": lambda: m("gbasis.integrals.kinetic_energy").kinetic_energy_integral(b),
            "momentum": lambda: m("gbasis.integrals.momentum").momentum_integral(b),
            "angmom": lambda: m("gbasis.integrals.angular_momentum").angular_momentum_integral(b),
            "moment": lambda: m("gbasis.integrals.moment").moment_integral(b, o["ORG"], o["ORD"].reshape(1, 3)),
            "point_charge": lambda: m("gbasis.integrals.point_charge").point_charge_integral(b, o["NUCC"], o["CHG"]),
            "nuclear": lambda: m("gbasis.integrals.nuclear_electron_attraction").nuclear_electron_attraction_integral(b, o["NUCC"], o["CHG"]),
            "eri": lambda: m("gbasis.integrals.electron_repulsion").electron_repulsion_integral([o["S1"], o["S3"]]),
            "eval_basis": lambda: m("gbasis.evals.eval").evaluate_basis(b, o["PTS"]),
            "eval_deriv": lambda: m("gbasis.evals.eval_deriv").evaluate_deriv_basis(b, o["PTS"], o["ORD"]),
            "eval_deriv_direct": lambda: m("gbasis.evals.eval_deriv").evaluate_deriv_basis(b, o["PTS"], np.array([1, 0, 2]), deriv_type="direct"),
            "density": lambda: m(D).evaluate_density(o["DM"], b, o["PTS"]),
            "gradient": lambda: m(D).evaluate_density_gradient(o["DM"], b, o["PTS"]),
            "laplacian": lambda: m(D).evaluate_density_laplacian(o["DM"], b, o["PTS"], deriv_type="direct"),
            "hessian": lambda: m(D).evaluate_density_hessian(o["DM"], b, o["PTS"]),
            "posdef_ke": lambda: m(D).evaluate_posdef_kinetic_energy_density(o["DM"], b, o["PTS"]),
            "general_ke": lambda: m(D).evaluate_general_kinetic_energy_density(o["DM"], b, o["PTS"], 0.25),
            "stress": lambda: m(ST).evaluate_stress_tensor(o["DM"], b, o["PTS"], alpha=0.5, beta=0.5),
            "force": lambda: m(ST).evaluate_ehrenfest_force(o["DM"], b, o["PTS"], alpha=0.25, beta=1),
            "ehess": lambda: m(ST).evaluate_ehrenfest_hessian(o["DM"], b, o["PTS"], alpha=1, beta=0, symmetric=True),
            "esp": lambda: m("gbasis.evals.electrostatic_potential").electrostatic_potential(b, o["DM"], o["PTS"], o["NUCC"], o["CHG"], threshold_dist=0.3),
            "make_contractions": lambda: shells_repr(m("gbasis.parsers").make_contractions(self.basis_dict, ["H", "H"], o["MCOORD"], o["CT"])),
            "parse_nwchem": lambda: repr(sorted((k, len(v)) for k, v in m("gbasis.parsers").parse_nwchem(self.nwfile).items())),
            "generate_transformation": lambda: m("gbasis.spherical").generate_transformation(
                2, o["S2"].angmom_components_cart, o["S2"].angmom_components_sph, "left"),
            "bad_moment_orders": lambda: m("gbasis.integrals.moment").moment_integral(b, o["ORG"], np.array([[1.0, 0.0, 2.0]])),
            "bad_density_shape": lambda: m(D).evaluate_density(np.ones((2, 3)), b, o["PTS"]),
            "bad_esp_threshold": lambda: m("gbasis.evals.electrostatic_potential").electrostatic_potential(b, o["DM"], o["PTS"], o["NUCC"], o["CHG"], threshold_dist=-1.0),
            "bad_points": lambda: m(D).evaluate_density(o["DM"], b, np.ones((3, 2))),
            "bad_make_contractions": lambda: m("gbasis.parsers").make_contractions(self.basis_dict, ["H", "H", "H"], o["MCOORD"], o["CT"]),
            "bad_direct_order": lambda: m("gbasis.evals.eval_deriv").evaluate_deriv_basis(b, o["PTS"], np.array([0, 3, 0]), deriv_type="direct"),
            "bad_density_negative": lambda: m(D).evaluate_density(-np.eye(o["DM"].shape[0]), b, o["PTS"]),
            "bad_coord_types": lambda: m("gbasis.integrals.overlap").Overlap(b).construct_array_mix(["cartesian"]),
            "bad_set_coeffs": lambda: setattr(o["S1"], "coeffs", np.ones((o["S1"].exps.size + 1, 1))),
            "bad_set_exps": lambda: setattr(o["S2"], "exps", np.ones(o["S2"].exps.size + 2)),
            "bad_set_coord": lambda: setattr(o["S3"], "coord", np.ones(4)),
            "bad_set_angmom": lambda: setattr(o["S1"], "angmom", -1),
        }
        return table[f]()


def rng_matrix(rng, r, c):
    return np.array([[rng.uniform(-1, 1) for _ in range(c)] for _ in range(r)])


def shells_repr(basis):
    return np.concatenate([np.concatenate([[s.angmom, s.icenter or 0, {"cartesian": 0.0, "spherical": 1.0}[s.coord_type]],
                                           s.coord, s.exps, s.coeffs.ravel(), s.norm_cont.ravel()]) for s in basis])


def execute(arg):
    """Worker: run one behaviour on fresh real objects and record the trace."""
    n, steps, seed = arg
    import warnings
    warnings.filterwarnings("ignore", category=RuntimeWarning)      # numpy's "divide by zero in log" under seterr(divide="warn")
    w = World(seed, 0)          # every behaviour starts from objects with the SAME values (shared value-id registry)
    if n % 2:                   # every other behaviour runs under error settings that are NOT numpy's defaults
        np.seterr(divide="ignore", over="raise", under="ignore", invalid="ignore")
    else:
        np.seterr(divide="warn", over="warn", under="ignore", invalid="warn")
    w.err0 = tuple(sorted(np.geterr().items()))
    init = w.snapshot()
    trace = []
    notes = []
    for st in steps:
        kind = st[0]
        pre = w.snapshot()
        epre = w.err_id()
        if kind in ("call", "raise"):
            f = st[1]
            key = tuple(map(lambda x: tuple(x) if isinstance(x, list) else x, (pre[a] for a in FUNCS[f])))
            try:
                out = w.call(f)
                op = "call"
                if not isinstance(out, (np.ndarray, str)):
                    out = np.asarray(out)
            except Exception as exc:  # noqa: BLE001
                op = "raise"
                out = type(exc).__name__
                import traceback
                if f not in RAISES:
                    notes.append("%s raised %s: %s" % (f, type(exc).__name__, exc))
            trace.append({"op": op, "f": f, "res": w.fingerprint(out), "pre": pre, "post": w.snapshot(), "errpre": epre, "errpost": w.err_id()})
        elif kind in ("mutate", "mutate_inplace") and (w.obj[st[1]].exps.shape != w.ptab[st[1]][st[2] - 1][0].shape
                                                       or w.obj[st[1]].coeffs.shape != w.ptab[st[1]][st[2] - 1][1].shape):
            # the shell no longer has the shape it was built with: an earlier, REJECTED request has changed it
            return {"n": n, "trace": trace, "notes": notes, "steps": steps, "init": init,
                    "crash": "before step %s the shell %s holds exponents of shape %s and coefficients of shape %s (built with %s and %s): a rejected "
                             "request has modified it" % (st, st[1], w.obj[st[1]].exps.shape, w.obj[st[1]].coeffs.shape,
                                                          w.ptab[st[1]][st[2] - 1][0].shape, w.ptab[st[1]][st[2] - 1][1].shape)}
        elif kind == "mutate":
            s, p2 = st[1], st[2]
            ex, co = w.ptab[s][p2 - 1]
            sh = w.obj[s]
            sh.exps = ex.copy()
            sh.coeffs = co.copy()
            post = w.snapshot()
            if post[s][0] == pre[s][0]:
                continue                                   # the drawn parameters equal the current ones: not a step
            trace.append({"op": "mutate", "obj": s, "p": post[s][0], "post": post})
        elif kind == "mutate_inplace":
            s, p2 = st[1], st[2]
            ex, co = w.ptab[s][p2 - 1]
            sh = w.obj[s]
            sh.exps[...] = ex                                # the arrays the shell holds are changed in place
            sh.coeffs[...] = co
            post = w.snapshot()
            if post[s][0] == pre[s][0]:
                continue
            trace.append({"op": "mutate_inplace", "obj": s, "p": post[s][0], "post": post})
        elif kind == "rebuild":
            s = st[1]
            old_ = w.obj[s]
            try:
                w.obj[s] = w.gb.Shell()(int(old_.angmom), old_.coord, old_.coeffs, old_.exps, old_.coord_type)   # same array objects
                w._inst = {}
                ov = w.gb.mod("gbasis.integrals.overlap").overlap_integral([w.obj[s]])
                unit = bool(np.abs(np.diag(ov) - 1).max() <= 1e-8)
            except Exception as exc:  # noqa: BLE001
                unit = False
                notes.append("rebuilding %s raised %s: %s" % (s, type(exc).__name__, exc))
            post = w.snapshot()
            trace.append({"op": "rebuild", "obj": s, "n": post[s][1], "unit": unit, "post": post})
        elif kind == "assign_norm":
            s = st[1]
            sh = w.obj[s]
            try:
                sh.assign_norm_cont()
                ov = w.gb.mod("gbasis.integrals.overlap").overlap_integral([sh])
                unit = bool(np.abs(np.diag(ov) - 1).max() <= 1e-8)
            except Exception as exc:  # noqa: BLE001     a shell left inconsistent by an earlier (rejected) request
                unit = False
                notes.append("assign_norm_cont() on %s raised %s: %s" % (s, type(exc).__name__, exc))
            post = w.snapshot()
            trace.append({"op": "assign_norm", "obj": s, "n": post[s][1], "unit": unit, "post": post})
        elif kind == "overwrite":
            a, v = st[1], st[2]
            w.obj[a][...] = w.atab[a][v - 1]
            post = w.snapshot()
            if post[a] == pre[a]:
                continue
            trace.append({"op": "overwrite", "obj": a, "v": post[a], "post": post})
    return {"n": n, "trace": trace, "notes": notes, "steps": steps, "init": init}


def diagnose(ev):
    """Plain-language reason why an event is not a step of Session.tla."""
    if ev["op"] in ("call", "raise"):
        ch = [o for o in ev["pre"] if ev["pre"][o] != ev["post"][o]]
        if ch:
            return "the call %s changed the caller's object(s) %s (value ids %s -> %s)" % (
                ev["f"], ch, [ev["pre"][o] for o in ch], [ev["post"][o] for o in ch])
        if ev["errpre"] != ev["errpost"]:
            return "the call %s left numpy's floating-point error settings changed" % ev["f"]
        if (ev["op"] == "raise") != (ev["f"] in RAISES):
            return ("the valid call %s raised" if ev["op"] == "raise" else "the invalid call %s was not rejected") % ev["f"]
        if ev.get("_cross"):
            return ("the call %s answered differently than the same request (same function, bitwise equal argument values) did in %s: "
                    "the result depends on the history of earlier calls" % (ev["f"], ev["_cross"]))
        return "the call %s answered differently (result id %d) than an earlier call with the same argument values" % (ev["f"], ev["res"])
    if ev["op"] == "assign_norm":
        if not ev["unit"]:
            return "after assign_norm_cont() the shell %s is not unit-normalised" % ev["obj"]
        return "assign_norm_cont() on %s gave different constants than before for the same parameters" % ev["obj"]
    if ev["op"] == "rebuild":
        if not ev["unit"]:
            return "a shell built from the array objects of %s (changed in place before) is not unit-normalised" % ev["obj"]
        return "a shell built from the array objects of %s got other normalisation constants than assign_norm_cont() gives for the same parameters" % ev["obj"]
    return "driver step %s not accepted" % ev["op"]


def cross_history(traces):
    """Python image of Trace_Session!CrossHistory, used to NAME the offending pair (TLC decides whether there is one)."""
    seen = {}
    bad = []
    for ti, tr in enumerate(traces):
        for li, ev in enumerate(tr):
            if ev["op"] in ("call", "raise"):
                key = (ev["f"], repr([ev["pre"][a] for a in FUNCS[ev["f"]]]))
                if key in seen and seen[key][2] != (ev["res"], ev["op"]):
                    bad.append((seen[key][0], seen[key][1], ti, li))
                seen.setdefault(key, (ti, li, (ev["res"], ev["op"])))
    return bad


def validate(ctx, traces):
    """Trace_Session over all recorded traces.  Returns list of (trace index, event index) rejected."""
    cross_bad = cross_history(traces)
    rejected = [(b[2], b[3]) for b in cross_bad[:5]]
    for b in cross_bad[:5]:
        traces[b[2]][b[3]]["_cross"] = "behaviour %d event %d" % (b[0], b[1] + 1)
    pending = list(range(len(traces)))
    rounds = 0
    while pending and rounds < 50:
        rounds += 1
        d = tlc.scratch("trv")
        constants_module(d, "MC_Const", False)
        tlc.write_module(d, "TraceData", "\nRecordedTraces == %s\n" % tlc.tla_value([traces[i] for i in pending]), extends=())
        args = "[" + ", ".join("%s |-> %s" % (f, tlc.tla_value(list(a))) for f, a in FUNCS.items()) + "]"
        body = ("\nVARIABLES val, npErr, memo, last, tid, l\nMCCanon == " + canon_tla() + "\nMCArgs == %s\nINSTANCE Trace_Session WITH Shells <- %s, Arrays <- %s, Lists <- %s,\n"
                "  Funcs <- %s, ArgsOf <- MCArgs, RaisesF <- %s, MaxVersions <- %d, PopVariant <- FALSE, Canon <- MCCanon, Traces <- RecordedTraces\n%s"
                % (args, tlc.tla_value(set(SHELLS)), tlc.tla_value(set(ARRAYS)), tlc.tla_value(set(LISTS)),
                   tlc.tla_value(set(FUNCS)), tlc.tla_value(set(RAISES)), MAXV,
                   "ASSUME CrossHistory\n" if rounds == 1 and not cross_bad else ""))
        tlc.write_module(d, "MC_Trace", body, extends=("Integers", "Sequences", "TLC", "TraceData"))
        res = tlc.run(d, "MC_Trace", "SPECIFICATION TraceSpec\nINVARIANT NotStuck\n", workers=4, timeout=1800)
        ctx.add_tlc("Trace_Session: %d recorded traces (%d events) validated against Session.tla" % (
            len(pending), sum(len(traces[i]) for i in pending)), res)
        tlc.cleanup(d)
        if res.ok:
            break
        import re
        m = re.findall(r"/\\ tid = (\d+)", res.out)
        ml = re.findall(r"/\\ l = (\d+)", res.out)
        if not m or not ml:
            raise tlc.MachineryError("cannot locate the rejected event in TLC's output:\n" + res.out[-1500:])
        ti, li = int(m[-1]) - 1, int(ml[-1]) - 1
        rejected.append((pending[ti], li))
        pending.pop(ti)          # validate the remaining traces
    return rejected


QUICK_TESTS = ["tests/test_parsers.py", "tests/test_overlap.py", "tests/test_overlap_asymm.py", "tests/test_electrostatic_potential.py",
               "tests/test_eval.py", "tests/test_kinetic_energy.py", "tests/test_momentum.py", "tests/test_moment.py",
               "tests/test_point_charge.py", "tests/test_nuclear_electron_attraction.py", "tests/test_angular_momentum.py"]


def suite_histories(ctx, quick):
    """Run the repository's own tests under the recorder and validate the recorded histories with Trace_Calls.tla."""
    import subprocess
    from .. import gb
    d = tlc.scratch("suite")
    out = os.path.join(d, "suite.json")
    env = dict(os.environ, GBV_TRACE_OUT=out, PYTHONPATH=gb.REPO + os.pathsep + os.path.join(tlc.VERIF, "harness"))
    cmd = ["/venv/bin/python", "-m", "pytest", "-q", "-x", "-p", "gbv.recorder", "-p", "no:cacheprovider", "--timeout=900"] + (QUICK_TESTS if quick else ["tests"])
    p = subprocess.run(cmd, cwd=gb.REPO, env=env, stdout=subprocess.PIPE, stderr=subprocess.STDOUT, text=True)
    if not os.path.exists(out):
        tlc.cleanup(d)
        raise tlc.MachineryError("the recorder produced no histories:\n" + p.stdout[-1500:])
    with open(out) as fh:
        rec = json.load(fh)["traces"]
    names = sorted(k for k in rec if rec[k])
    traces = [rec[k] for k in names]
    ctx.extra["repository_tests_recorded"] = len(names)
    ctx.extra["repository_test_events"] = sum(len(t) for t in traces)
    ctx.extra["repository_tests_outcome"] = p.stdout.strip().splitlines()[-1] if p.stdout.strip() else ""
    rejected = []
    pending = list(range(len(traces)))
    rounds = 0
    while pending and rounds < 30:
        rounds += 1
        tlc.write_module(d, "SuiteData", "\nSuiteTraces == %s\n" % tlc.tla_value([traces[i] for i in pending]), extends=())
        tlc.write_module(d, "MC_Suite", "\nVARIABLES tid, l, memo\nINSTANCE Trace_Calls WITH Traces <- SuiteTraces\n",
                         extends=("Integers", "Sequences", "TLC", "SuiteData"))
        res = tlc.run(d, "MC_Suite", "SPECIFICATION Spec\nINVARIANT NotStuck\n", workers=4, timeout=1800)
        ctx.add_tlc("Trace_Calls: %d histories recorded from the repository's own tests (%d calls)" % (
            len(pending), sum(len(traces[i]) for i in pending)), res)
        if res.ok:
            break
        import re
        m = re.findall(r"/\\ tid = (\d+)", res.out)
        ml = re.findall(r"/\\ l = (\d+)", res.out)
        if not m or not ml:
            tlc.cleanup(d)
            raise tlc.MachineryError("cannot locate the rejected event:\n" + res.out[-1500:])
        ti, li = int(m[-1]) - 1, int(ml[-1]) - 1
        rejected.append((names[pending[ti]], traces[pending[ti]][li]))
        pending.pop(ti)
    tlc.cleanup(d)
    return rejected


def diagnose_suite(ev):
    ch = [a[0] for a in ev["args"] if a[1] != a[2]]
    if ch:
        return "%s changed its argument object(s) %s" % (ev["f"], ch)
    if ev["errpre"] != ev["errpost"]:
        return "%s left numpy's floating-point error settings changed" % ev["f"]
    return "%s answered differently than an earlier call of the same test with the same argument values" % ev["f"]


def run_tlaps(ctx):
    """Unbounded proofs (any number of objects, functions and versions) of Purity, MemoStable, the error-state invariant and
    AfterAssign for Session.tla: spec/SessionProofs.tla.  Negative control: without the assumption that the tree is the
    repaired one (PopVariant = FALSE) the purity proof must fail (MakeContractionsPop changes the caller's list)."""
    n, out = tlc.tlaps("SessionProofs", needs=("Session",))
    if n is None:
        raise tlc.MachineryError("TLAPS did not prove SessionProofs.tla:\n" + out[-1500:])
    n2, out2 = tlc.tlaps("SessionProofs", needs=("Session",), subst=("ASSUME Repaired == PopVariant = FALSE", "ASSUME Repaired == TRUE"))
    if n2 is not None or "obligations failed" not in out2:
        raise tlc.MachineryError("negative control: SessionProofs.tla is still proved without the assumption PopVariant = FALSE")
    ctx.extra["tlaps"] = {"module": "SessionProofs.tla", "theorems": ["PurityHolds", "MemoStableHolds", "ErrStateHolds", "ValFcnInv", "AfterAssignHolds"],
                          "obligations_proved": n, "negative_control": "purity proof fails when PopVariant is unconstrained"}


def run(pid, tier, seed, only_case=None):
    ctx = common.Ctx(pid, tier, seed)
    ctx.write_evidence = ctx.write_evidence and only_case is None
    quick = tier == "quick"
    if only_case is not None:
        behaviours = [only_case["steps"]]
    else:
        common.run_models_parallel([lambda: run_small_model(ctx, False), lambda: run_small_model(ctx, True), lambda: run_tlaps(ctx)])
        behaviours = simulate(ctx, 48 if quick else 400, 14 if quick else 30, seed)
        # behaviours the random walk rarely produces: the same call repeated around a driver change, every function once
        allf = sorted(FUNCS)
        behaviours.append([["call" if f not in RAISES else "raise", f] for f in allf] * 2)
        behaviours.append([["call", "make_contractions"], ["call", "make_contractions"], ["raise", "bad_make_contractions"], ["call", "make_contractions"]])
        behaviours.append([["call", "overlap"], ["mutate", "S1", 2], ["call", "overlap"], ["assign_norm", "S1"], ["call", "overlap"],
                           ["mutate", "S1", 1], ["assign_norm", "S1"], ["call", "overlap"], ["call", "kinetic"], ["call", "esp"], ["call", "esp"]])
        # the same request reached along two histories, for every function of the shells: first use after a parameter update
        # and renormalisation, and the same with an earlier use of the function on the old parameters (memo tables keyed by
        # object identity or by part of the parameters answer the second from the first)
        # every rejected request followed by every valid one (a rejected update that already stored something shows in the
        # next use of the object), once for the whole list
        behaviours.append([x for f in RAISES for x in (["raise", f], ["call", "overlap"], ["call", "inst_kinetic"])]
                          + [["call", f] for f in allf if f not in RAISES])
        for s_ in SHELLS:
            users = [f for f in allf if f not in RAISES and s_ in FUNCS[f]]
            upd = [["mutate", s_, 2], ["assign_norm", s_]]
            behaviours.append(upd + [["call", f] for f in users])
            behaviours.append([["call", f] for f in users] + [["mutate_inplace", s_, 3], ["assign_norm", s_]] + [["call", f] for f in users]
                              + [["mutate_inplace", s_, 2], ["rebuild", s_]] + [["call", f] for f in users])
            behaviours.append([["call", f] for f in users] + upd + [["call", f] for f in users] + [["mutate", s_, 3]] + [["call", f] for f in users])
    out = common.pmap(execute, [(n, b, seed) for n, b in enumerate(behaviours)])
    traces = []
    nev = 0
    reg = {}
    resreg = {}

    def gid(x):
        if x == "EMPTY":
            return 0
        if x == "ERR0":
            return 1
        kind = x.split("#")[0]
        tab = reg.setdefault(kind, {})
        if x not in tab:
            tab[x] = len(tab) + (2 if kind == "err" else 1)
        return tab[x]

    def gval(v):
        return [gid(v[0]), gid(v[1])] if isinstance(v, list) else gid(v)

    def rid(f, key, fp):
        lst = resreg.setdefault((f, key), [])
        for i, ref in lst:
            if isinstance(ref, str) or isinstance(fp, str):
                if ref == fp:
                    return i
            elif ref[0] == fp[0] and np.allclose(ref[1:], fp[1:], rtol=1e-10, atol=1e-200):
                return i
        lst.append((len(lst) + 1, fp))
        return len(lst)

    for r in out:                       # the initial values get id 1, as in Session!Init
        if not isinstance(r, common.ImplFailure):
            for v in r["init"].values():
                gval(v)
            break
    for n, r in enumerate(out):
        if isinstance(r, common.ImplFailure):     # an exception escaped from gbasis in a step the harness did not expect to raise
            ctx.violation({"function": "behaviour", "kind": "exception escaped"}, "behaviour %d: %s" % (n, r.msg),
                          {"module": "c19", "case": {"steps": behaviours[n]}})
            traces.append([])
            continue
        if r.get("crash"):
            ctx.violation({"function": "behaviour", "kind": "object changed by a rejected request"}, "behaviour %d: %s" % (n, r["crash"]),
                          {"module": "c19", "case": {"steps": behaviours[n]}})
        tr = []
        for ev in r["trace"]:
            e2 = dict(ev)
            for k in ("pre", "post"):
                if k in e2:
                    e2[k] = {o: gval(v) for o, v in e2[k].items()}
            for k in ("errpre", "errpost", "p", "n", "v"):
                if k in e2:
                    e2[k] = gid(e2[k])
            if "res" in e2:
                key = repr([e2["pre"][a] for a in FUNCS[e2["f"]]])
                e2["res"] = rid(e2["f"], key, e2["res"])
            tr.append(e2)
        traces.append(tr)
        nev += len(tr)
    rejected = validate(ctx, traces)
    for (ti, li) in rejected:
        ev = traces[ti][li]
        msg = "behaviour %d, event %d: %s" % (ti, li + 1, diagnose(ev))
        key = {"function": ev.get("f", ev["op"]), "kind": "trace rejected by Trace_Session"}
        ctx.violation(key, msg, {"module": "c19", "case": {"steps": behaviours[ti]}})
    if only_case is None:
        for test, ev in suite_histories(ctx, quick):
            ctx.violation({"function": ev["f"], "kind": "history of a repository test rejected by Trace_Calls"},
                          "%s: %s" % (test, diagnose_suite(ev)), {"module": "c19", "case": {"steps": [["call", "make_contractions"]], "test": test}})
    ctx.replayed = len(traces) + ctx.extra.get("repository_tests_recorded", 0)
    ctx.evaluations = nev + ctx.extra.get("repository_test_events", 0)
    for b in behaviours:
        ctx.distinct.add(json.dumps(b))
    ctx.extra.update({"events_validated": nev, "functions_exercised": len({e.get("f") for t in traces for e in t if e.get("f")}),
                      "exhaustive": False})
    ctx.rule = ("behaviours generated by TLC simulation of Session.tla over %d public functions (valid and invalid) on three shared "
                "shells, eight arrays and one list, plus three fixed behaviours; every behaviour is executed on real objects, recorded "
                "and validated; distinct by step sequence" % len(FUNCS))
    ctx.samples = [behaviours[0], traces[0][:2]]
    ctx.assumptions = ["value identity = bitwise content hash of every live object; results of equal requests compared to 1e-12 relative",
                       "BLAS pinned to one thread"]
    return ctx.finish()
