"""C05 -- basis-function values and arbitrary-order derivatives, both back-ends.

TLC (Deriv.tla): for all a <= 8, m <= 5 the polynomial Q_{a,m}(x, alpha) defined by repeated differentiation
equals the Leibniz/Hermite sum of the general back-end, and the hand-expanded formulas of the direct back-end
for m <= 2 -- identities of integer polynomials, hence for all real x and alpha (coordinate planes included).
TLC's coefficient tables are compared exactly with the harness' own.
Replay: exact values of every mixed partial derivative of every normalised contracted function at dyadic
points (on centres, on planes through centres, generic), order triples 0..4 enumerated, both back-ends, all
coordinate-type patterns, with and without a transformation; `direct` with an order above 2 must be rejected
or answer with the right numbers.
"""
import itertools
import math
import os
from fractions import Fraction as Fr

import mpmath
import numpy as np

from .. import cases as cg
from .. import exact, layout, sev, tlaparse, tlc
from . import common

AMAX, MMAX = 8, 5


def deriv_poly(a, m):
    """Q_{a,m} as {(i, j): integer}: definition by repeated differentiation (Deriv!Q)."""
    p = {(a, 0): 1}
    for _ in range(m):
        q = {}
        for (i, j), c in p.items():
            if i >= 1:
                q[(i - 1, j)] = q.get((i - 1, j), 0) + i * c
            q[(i + 1, j + 1)] = q.get((i + 1, j + 1), 0) - 2 * c
        p = {k: v for k, v in q.items() if v != 0}
    return p


def run_deriv_model(ctx):
    d = tlc.scratch("der")
    tlc.write_module(d, "MC_D", "\nCONSTANTS AMax, MMax\nVARIABLES a, m, qtab\nINSTANCE Deriv\n")
    dump = os.path.join(d, "states")
    res = tlc.run(d, "MC_D", "CONSTANTS AMax = %d\nMMax = %d\nSPECIFICATION Spec\nINVARIANT GeneralIsDef\n"
                  "INVARIANT DirectIsDef\nINVARIANT DegreeOK\n" % (AMAX, MMAX), workers=8, timeout=1800,
                  extra=["-dump", dump])
    if not res.ok:
        ctx.spec_violation("Deriv", res)
    ctx.add_tlc("Deriv(a<=%d, m<=%d): general back-end = definition, direct back-end = definition (m<=2), as polynomial "
                "identities in (x, alpha)" % (AMAX, MMAX), res)
    states = tlaparse.read_dump(dump + ".dump")
    tlc.cleanup(d)
    n = 0
    for s in states:
        mine = deriv_poly(s["a"], s["m"])
        theirs = {(t[0], t[1]): t[2] for t in s["qtab"]["__set__"]}
        n += len(theirs)
        if mine != theirs:
            raise tlc.MachineryError("harness derivative polynomial Q(%d,%d) differs from TLC's" % (s["a"], s["m"]))
    ctx.extra["polynomial_coefficients_compared_with_TLC"] = n
    if len(states) != (AMAX + 1) * (MMAX + 1):
        raise tlc.MachineryError("Deriv model: %d states" % len(states))


def peval(poly, x, alpha):
    v = Fr(0)
    vabs = Fr(0)
    for (i, j), c in poly.items():
        t = c * x ** i * alpha ** j
        v += t
        vabs += abs(t)
    return v, vabs


def oracle_shell(sh, pts, orders):
    """raw[m, a, p] (un-normalised contraction, Cartesian components) and abs-sum, for one order triple."""
    s = sev.shell_exact(sh)
    l = s["l"]
    K = len(s["exps"])
    comps = s["comps"]
    P = len(pts)
    prim = np.zeros((K, len(comps), P))
    primabs = np.zeros_like(prim)
    for i, al in enumerate(s["exps"]):
        rn = float(sev.rad_norm(al, l))
        # per axis, per power a, per point: Q and |Q|
        ax = []
        for x in range(3):
            tab = {}
            for a in range(l + 1):
                poly = deriv_poly(a, orders[x])
                vals = [peval(poly, p[x] - s["A"][x], al) for p in pts]
                tab[a] = (np.array([float(v[0]) for v in vals]), np.array([float(v[1]) for v in vals]))
            ax.append(tab)
        ex = np.array([float(mpmath.exp(-mpmath.mpf((al * sum((p[x] - s["A"][x]) ** 2 for x in range(3))).numerator)
                                        / (al * sum((p[x] - s["A"][x]) ** 2 for x in range(3))).denominator)) for p in pts])
        for c, comp in enumerate(comps):
            cn = sev.comp_norm(comp)
            v = ax[0][comp[0]][0] * ax[1][comp[1]][0] * ax[2][comp[2]][0]
            va = ax[0][comp[0]][1] * ax[1][comp[1]][1] * ax[2][comp[2]][1]
            prim[i, c] = rn * cn * v * ex
            primabs[i, c] = rn * cn * va * ex
    d = np.array([[float(c) for c in row] for row in s["coeffs"]])
    return np.einsum("im,iap->map", d, prim), np.einsum("im,iap->map", np.abs(d), primabs)


def special_points(rng, basis, n):
    pts = []
    for _ in range(n):
        sh = rng.choice(basis)
        c = [exact.dy(x) for x in sh["center"]]
        r = rng.random()
        if r < 0.15:
            p = list(c)                                   # exactly on a centre
        elif r < 0.45:
            p = [exact.dy(cg.grid_coord(rng, 3.0)) for _ in range(3)]
            k = rng.randrange(3)
            p[k] = c[k]                                   # on a coordinate plane through the centre
            if rng.random() < 0.4:
                k2 = (k + 1) % 3
                p[k2] = c[k2]                             # on an axis through the centre
        else:
            p = [exact.dy(cg.grid_coord(rng, 3.0, 5)) for _ in range(3)]
        pts.append(p)
    if n >= 2 and rng.random() < 0.5:
        # two DISTINCT points 3e-7 bohr apart (the two ends of a finite-difference step, overlapping atomic grids), and an
        # exact repetition of a point: every point is answered for itself
        from fractions import Fraction
        q = list(pts[0])
        q[rng.randrange(3)] += Fraction(5, 2 ** 24)
        pts.append(q)
        pts.append(list(pts[-2 if len(pts) > 2 else 0]))
    return pts


def replay_case(case):
    from .. import gb
    basis = case["basis"]
    pts = [[Fr(a[0], a[1]) for a in p] for p in case["points"]]
    fpts = np.array([[float(x) for x in p] for p in pts])
    shells = gb.make_basis(basis)
    norms = [sev.contraction_norm(s) for s in basis]
    T = np.array(case["transform"]) if case.get("transform") is not None else None
    ed = gb.mod("gbasis.evals.eval_deriv").evaluate_deriv_basis
    ev = gb.mod("gbasis.evals.eval").evaluate_basis
    res = {"id": case["id"], "violations": [], "dev": 0.0, "n": 0}
    kw = {} if T is None else {"transform": T}

    def expected(orders):
        blocks = [oracle_shell(s, pts, orders) for s in basis]
        w, wabs = layout.assemble([basis], lambda ks: blocks[ks[0]], [norms])
        if T is not None:
            w, wabs = T @ w, np.abs(T) @ wabs
        return w, wabs

    def cmp(name, got, w, wabs):
        res["n"] += 1
        if got.shape != w.shape:
            res["violations"].append("%s: shape %s, expected %s" % (name, got.shape, w.shape))
            return
        tol = 1e-9 * wabs + 1e-150
        dev = np.abs(got - w)
        bad = ~(dev <= tol)
        rel = float((dev / (wabs + 1e-150)).max())
        res["dev"] = max(res["dev"], rel)
        if bad.any():
            idx = np.unravel_index(np.argmax(np.where(bad, dev / tol, 0)), dev.shape)
            res["violations"].append("%s: function %d at point %s is %r, exact value %r (tolerance %.3g); %d elements differ"
                                     % (name, idx[0], [float(x) for x in pts[idx[1]]], got[idx], w[idx], tol[idx], int(bad.sum())))

    for orders in case["orders"]:
        o = np.array(orders)
        w, wabs = expected(orders)
        cmp("evaluate_deriv_basis(orders=%s, general)" % (orders,), ed(shells, fpts, o, **kw), w, wabs)
        if sum(orders) == 0:
            cmp("evaluate_basis", ev(shells, fpts, **kw), w, wabs)
        if max(orders) <= 2:
            cmp("evaluate_deriv_basis(orders=%s, direct)" % (orders,), ed(shells, fpts, o, deriv_type="direct", **kw), w, wabs)
        else:
            try:
                got = ed(shells, fpts, o, deriv_type="direct", **kw)
            except Exception:  # noqa: BLE001  rejected: fine
                got = None
            if got is not None:
                cmp("evaluate_deriv_basis(orders=%s, direct) [not rejected, so it must be right]" % (orders,), got, w, wabs)
    if T is None:
        from . import reuse
        hv = []
        pts2 = fpts[::-1] * 0.875 + 0.0625
        reuse.instance_reuse(gb, basis, "gbasis.evals.eval", "Eval", hv, "Eval", points=fpts, kw2={"points": pts2})
        reuse.instance_reuse(gb, basis, "gbasis.evals.eval_deriv", "EvalDeriv", hv, "EvalDeriv", points=fpts, orders=np.array([1, 0, 0]),
                             kw2={"points": fpts, "orders": np.array([0, 1, 0]), "deriv_type": "direct"})
        res["violations"] += [v_["message"] for v_ in hv]
    return res


def gen_cases(tier, seed):
    quick = tier == "quick"
    triples = list(itertools.product(range(5), repeat=3))
    low = [t for t in triples if max(t) <= 2]
    cases = []
    n = 32 if quick else 120
    for d in range(n):
        rng = cg.rng_for(seed, "C05", d)
        bits = 24
        nsh = rng.randint(1, 4)
        cens = [cg.center(rng) for _ in range(2)]
        lmax = 6 if d % 3 == 0 else 4
        basis = [cg.shell(rng, rng.randint(0, lmax) if k else (d % 7), bits=bits,
                          cen=rng.choice(cens) if rng.random() < 0.5 else None) for k in range(nsh)]
        npts = rng.choice([1, 3, 8, 20, 50]) if not quick else rng.choice([1, 3, 6, 10])
        pts = special_points(rng, basis, npts)
        if d == 0:
            orders = triples if not quick else triples[::2]
            basis = basis[:2]
        elif d == 1:
            orders = triples[1::2] if quick else triples
            basis = basis[:2]
        else:
            orders = rng.sample(low, 5) + rng.sample(triples, 5 if quick else 15) + [(0, 0, 0)]
        c = {"id": d + 1, "basis": basis, "points": [[[x.numerator, x.denominator] for x in p] for p in pts],
             "orders": [list(o) for o in orders]}
        if d % 3 == 2:
            ntot = sum(layout.size(s) for s in basis)
            rows = rng.choice([1, ntot, ntot + 2])
            c["transform"] = [[cg.val(cg.dyadic(rng.uniform(-1, 1), 8)) for _ in range(ntot)] for _ in range(rows)]
        cases.append(c)
    return cases


def run(pid, tier, seed, only_case=None):
    ctx = common.Ctx(pid, tier, seed)
    ctx.write_evidence = ctx.write_evidence and only_case is None
    if only_case is not None:
        cases = [only_case]
    else:
        run_deriv_model(ctx)
        cases = gen_cases(tier, seed)
    out = common.pmap(replay_case, cases)
    trip = set()
    for c, r in zip(cases, out):
        if common.impl_failure(ctx, r, c, "c05", "evaluate_deriv_basis"):
            continue
        ctx.replayed += 1
        ctx.evaluations += r["n"] - 1
        for o in c["orders"]:
            trip.add(tuple(o))
        ctx.case_done(("c05", c["id"], tuple((s["l"], len(s["exps"]), len(s["coeffs"][0]), s["type"]) for s in c["basis"])))
        ctx.note_dev("relative to the sum of absolute terms", r["dev"])
        for v in r["violations"]:
            ctx.violation({"function": v.split("(")[0]}, "case %d: %s" % (c["id"], v), {"module": "c05", "case": c})
    ctx.extra["order_triples_covered"] = len(trip)
    ctx.extra["exhaustive"] = False
    ctx.rule = ("seeded bases of 1-4 shells (l 0..6, 1-4 primitives, 1-3 segments, both types), 1-50 dyadic points of which "
                "~45% lie exactly on a centre or on a plane/axis through one; order triples 0..4 enumerated over the run; a case is "
                "distinct by its shell tuple and non-trivial always (every case has derivatives)")
    ctx.samples = [{k: c[k] for k in ("id", "basis", "points", "orders")} for c in cases[2:3]]
    ctx.assumptions = ["polynomial identities are checked by TLC in true integer arithmetic (no overflow for a<=8, m<=5)",
                       "mpmath for exp at exact arguments; Fractions for the polynomial parts"]
    return ctx.finish()
