"""C09 -- spherical, mixed and linearly transformed results derive from the Cartesian ones.

TLC (MCAssembly over Assembly.tla / NumpyOps.tla / Layout.tla): for EVERY assignment of cartesian / spherical to
the shells of small bases with pairwise distinct block sizes, the as-implemented tensordot / swapaxes /
concatenate pipelines of the four base classes equal the documented layout, symbolically, with and without a
rectangular transformation.  Negative controls (a component-major flattening, a normalisation constant taken from the wrong shell in the four-index class, the
plain-transpose fill for a Hermitian kernel) must be REPORTED by TLC, otherwise the comparison is vacuous.
NumpyReplay binds the operation semantics to real numpy.
Replay into /repo: (a) dummy subclasses of the four base classes returning seeded labelled blocks, for every
type pattern TLC enumerated; (b) every public function: typed result = Cartesian result contracted with the
exact transformation matrix of each spherical shell, transform=U = untransformed with U on every basis index;
(c) shell subclasses with permuted / sign-flipped component conventions.
"""
import itertools
import os

import numpy as np

from .. import cases as cg
from .. import exact, layout, tlaparse, tlc
from . import common


# ------------------------------------------------------------------------------------------ TLC
def run_mcassembly(ctx, family, nshell, fill="conjtranspose", klass="hermitian", mut="none", expect_violation=False,
                   workers=4):
    d = tlc.scratch("asm")
    tlc.write_module(d, "MC_Asm", "\nCONSTANTS X, Mut, Family, MaxShells, Fill, Class, R\nVARIABLES cfg, done, ok\n"
                                   "INSTANCE MCAssembly\n")
    cfg = ('CONSTANTS X = 2\nMut = "%s"\nFamily = "%s"\nMaxShells = %d\nFill = "%s"\nClass = "%s"\nR = 2\n'
           "SPECIFICATION Spec\nINVARIANT AssemblyEqLayout\n" % (mut, family, nshell, fill, klass))
    dump = os.path.join(d, "states")
    name0 = "MCAssembly(%s, mutant=%s, fill=%s, class=%s)" % (family, mut, fill, klass)
    try:
        res = tlc.run(d, "MC_Asm", cfg, workers=workers, timeout=3000, extra=["-dump", dump])
    except tlc.MachineryError:
        if not expect_violation:
            raise
        # a seeded slip may also make the model ill-formed (shape mismatch): that counts as reported
        ctx.extra.setdefault("negative_controls_detected_by_TLC", []).append(name0 + " [evaluation error]")
        tlc.cleanup(d)
        return []
    name = "MCAssembly(%s, shells<=%d, fill=%s, class=%s, mutant=%s)" % (family, nshell, fill, klass, mut)
    if expect_violation:
        if res.ok:
            tlc.cleanup(d)
            raise tlc.MachineryError("negative control not detected: TLC accepted " + name)
        ctx.extra.setdefault("negative_controls_detected_by_TLC", []).append(name)
        tlc.cleanup(d)
        return []
    if not res.ok:
        ctx.spec_violation(name, res)
    ctx.add_tlc(name + ": as-implemented pipeline = Layout for every type pattern", res)
    states = tlaparse.read_dump(dump + ".dump")
    tlc.cleanup(d)
    pats = []
    for s in states:
        if s.get("done") is False:
            c = s["cfg"]
            pats.append({"family": family, "types": [x["typ"] for x in c["B"]],
                         "types2": [x["typ"] for x in c["B2"]] if c["B2"] else None, "lin": c["lin"] != 0})
    return pats


def sym_value(code):
    return 0.3 + ((code * 2654435761) % 1000003) / 1000003.0


def atom_value(b):
    h = 0
    for x in _flat(b):
        h = (h * 1000003 + x + 17) % 2147483629
    return complex(0.1 + (h % 9973) / 9973.0, 0.05 + (h % 7919) / 7919.0)


def _flat(b):
    for x in b:
        if isinstance(x, (list, tuple)):
            yield from _flat(x)
        else:
            yield x


def eval_entry(entry):
    tot = 0j
    for t in entry["__set__"]:
        v = atom_value(t["b"])
        if t["cj"]:
            v = v.conjugate()
        for c in t["f"]:
            v *= sym_value(c)
        tot += v
    return tot


def run_numpyreplay(ctx, depth):
    d = tlc.scratch("npr")
    tlc.write_module(d, "MC_NR", "\nCONSTANTS MaxDepth, MaxSize\nVARIABLES t, ops\nINSTANCE NumpyReplay\n")
    dump = os.path.join(d, "states")
    res = tlc.run(d, "MC_NR", "CONSTANTS MaxDepth = %d\nMaxSize = 48\nSPECIFICATION Spec\nINVARIANT WellFormed\n" % depth,
                  workers=8, timeout=1800, extra=["-dump", dump])
    if not res.ok:
        ctx.spec_violation("NumpyReplay", res)
    ctx.add_tlc("NumpyReplay(depth<=%d): every sequence of array operations on a labelled tensor" % depth, res)
    states = tlaparse.read_dump(dump + ".dump")
    tlc.cleanup(d)
    bad = 0
    for s in states:
        arr = np.zeros((2, 3, 2), dtype=complex)
        for i in itertools.product(range(2), range(3), range(2)):
            arr[i] = atom_value([x + 1 for x in i])
        for step, op in enumerate(s["ops"]):
            name, args = op[0], op[1:]
            if name == "swapaxes":
                arr = np.swapaxes(arr, args[0], args[1])
            elif name == "concatenate_self":
                arr = np.concatenate(arr, axis=0)
            elif name == "reshape_merge":
                ax = args[0]
                arr = arr.reshape(arr.shape[:ax] + (arr.shape[ax] * arr.shape[ax + 1],) + arr.shape[ax + 2:])
            elif name == "tensordot":
                ax = args[0]
                U = np.array([[sym_value(100000000 + 1000000 * step + r * 1000 + p) for p in range(1, arr.shape[ax] + 1)]
                              for r in (1, 2)])
                arr = np.tensordot(U, arr, (1, ax))
            elif name == "normmul":
                ax = args[0]
                N = np.array([[sym_value(300000000 + 10000 + m * 100 + a) for a in range(1, arr.shape[ax + 1] + 1)]
                              for m in range(1, arr.shape[ax] + 1)])
                arr = arr * N.reshape((1,) * ax + N.shape + (1,) * (arr.ndim - ax - 2))
            elif name == "concatenate_pair":
                arr = np.concatenate([arr, np.conj(arr)], axis=args[0])
            elif name == "transpose_rotate":
                arr = np.transpose(arr, [(n + 1) % arr.ndim for n in range(arr.ndim)])
            elif name == "conj":
                arr = np.conj(arr)
        t = s["t"]
        ok = list(arr.shape) == t["sh"]
        if ok:
            for idx, entry in t["f"].items():
                if abs(arr[tuple(i - 1 for i in idx)] - eval_entry(entry)) > 1e-9:
                    ok = False
                    break
        if not ok:
            bad += 1
    if bad:
        raise tlc.MachineryError("NumpyOps.tla disagrees with numpy on %d of %d operation sequences" % (bad, len(states)))
    ctx.extra["numpy_operation_sequences_replayed"] = len(states)


# ------------------------------------------------------------------------------------------ (a) dummy blocks
def _canon2(f1, f2):
    """f = (k, m, a).  Returns (ordered pair, flipped?)."""
    return ((f1, f2), False) if f1 <= f2 else ((f2, f1), True)


def g2(f1, f2, x, herm):
    (p, q), fl = _canon2(f1, f2)
    h = atom_value([p, q, x])
    if not herm:
        return h.real
    if p == q:
        return complex(h.real, 0.0)
    return h.conjugate() if fl else h


def g4(fs):
    ab = tuple(sorted(fs[:2]))
    cd = tuple(sorted(fs[2:]))
    return atom_value(sorted([ab, cd])).real


def real_shells(rng, types, lmax=4):
    """Seeded real shells with pairwise distinct (M, l) so that every block has its own shape."""
    used, out = set(), []
    for ty in types:
        while True:
            l, M = rng.randint(0, lmax), rng.randint(1, 3)
            if (l, M) not in used and not (len(types) > 1 and l == 0 and M == 1):
                used.add((l, M))
                break
        out.append(cg.shell(rng, l, K=1, M=M, typ=ty, hi=3.0))
    return out


def replay_dummy(case):
    from .. import gb
    pat = case["pat"]
    fam = pat["family"]
    rng = cg.rng_for(case["seed"], "dummy", case["id"])
    b1 = real_shells(rng, pat["types"], lmax=4 if fam != "four" else 1)
    b2 = real_shells(rng, pat["types2"], lmax=4) if pat["types2"] else None
    sh1 = gb.make_basis(b1)
    for k, s in enumerate(sh1):
        s._gbv = k
    sh2 = None
    if b2:
        sh2 = gb.make_basis(b2)
        for k, s in enumerate(sh2):
            s._gbv = 100 + k
    X = 2
    herm = case["herm"]
    V = []

    def fn(s, m, a):
        return (s._gbv, m, a)

    def blk1(s):
        return np.array([[[atom_value([s._gbv, m, a, x]).real for x in range(X)] for a in range(s.num_cart)]
                         for m in range(s.num_seg_cont)])

    def blk2(s, t):
        out = np.zeros((s.num_seg_cont, s.num_cart, t.num_seg_cont, t.num_cart, X), dtype=complex if herm else float)
        for m, a, n, b, x in itertools.product(*[range(i) for i in out.shape]):
            out[m, a, n, b, x] = g2(fn(s, m, a), fn(t, n, b), x, herm) if fam == "sym" else atom_value([fn(s, m, a), fn(t, n, b), x]).real
        return out

    def blk4(s1, s2, s3, s4):
        ss = (s1, s2, s3, s4)
        out = np.zeros(tuple(v for s in ss for v in (s.num_seg_cont, s.num_cart)))
        for idx in itertools.product(*[range(i) for i in out.shape]):
            out[idx] = g4([fn(ss[n], idx[2 * n], idx[2 * n + 1]) for n in range(4)])
        return out

    T = None
    if fam == "one":
        base = gb.mod("gbasis.base_one").BaseOneIndex

        class D(base):
            def construct_array_contraction(self, contraction, **kw):
                return blk1(contraction)
        obj = D(sh1)
        want, _ = layout.assemble([b1], lambda ks: (blk1(sh1[ks[0]]), blk1(sh1[ks[0]])), [[s.norm_cont for s in sh1]])
        nb = 1
    elif fam == "sym":
        base = gb.mod("gbasis.base_two_symm").BaseTwoIndexSymmetric

        class D(base):
            def construct_array_contraction(self, c1, c2, **kw):
                return blk2(c1, c2)
        obj = D(sh1)
        nm = [s.norm_cont for s in sh1]
        want, _ = layout.assemble([b1, b1], lambda ks: (blk2(sh1[ks[0]], sh1[ks[1]]),) * 2, [nm, nm])
        nb = 2
    elif fam == "asym":
        base = gb.mod("gbasis.base_two_asymm").BaseTwoIndexAsymmetric

        class D(base):
            def construct_array_contraction(self, c1, c2, **kw):
                return blk2(c1, c2)
        obj = D(sh1, sh2)
        want, _ = layout.assemble([b1, b2], lambda ks: (blk2(sh1[ks[0]], sh2[ks[1]]),) * 2,
                                  [[s.norm_cont for s in sh1], [s.norm_cont for s in sh2]])
        nb = 2
    else:
        base = gb.mod("gbasis.base_four_symm").BaseFourIndexSymmetric

        class D(base):
            def construct_array_contraction(self, c1, c2, c3, c4, **kw):
                return blk4(c1, c2, c3, c4)
        obj = D(sh1)
        nm = [s.norm_cont for s in sh1]
        want, _ = layout.assemble([b1] * 4, lambda ks: (blk4(*[sh1[k] for k in ks]),) * 2, [nm] * 4)
        nb = 4
    t1 = [s["type"] for s in b1]
    t2 = [s["type"] for s in b2] if b2 else None
    calls = []
    uni = all(t == t1[0] for t in t1 + (t2 or []))
    if fam == "asym":
        calls.append(("construct_array_mix", lambda: obj.construct_array_mix(t1, t2)))
        if uni:
            calls.append(("construct_array_" + t1[0], lambda: getattr(obj, "construct_array_" + t1[0])()))
    else:
        calls.append(("construct_array_mix", lambda: obj.construct_array_mix(t1)))
        if uni:
            calls.append(("construct_array_" + t1[0], lambda: getattr(obj, "construct_array_" + t1[0])()))
    scale = np.abs(want).max() + 1e-300
    res = {"id": case["id"], "violations": [], "dev": 0.0}
    for name, call in calls:
        got = call()
        if got.shape != want.shape:
            res["violations"].append("%s of a dummy %s-index class: shape %s, layout says %s" % (name, fam, got.shape, want.shape))
            continue
        dev = float(common.above_noise(np.abs(got - want).max()) / scale)
        res["dev"] = max(res["dev"], dev)
        if not dev <= 1e-10:
            idx = np.unravel_index(np.argmax(np.abs(got - want)), want.shape)
            res["violations"].append("%s of a dummy %s-index class (types %s%s): element %s is %r, the documented layout gives %r"
                                     % (name, fam, t1, "/" + str(t2) if t2 else "", tuple(int(i) for i in idx), got[idx], want[idx]))
    # lincomb with a rectangular transformation
    if pat["lin"]:
        n1 = want.shape[0]
        U1 = np.array([[sym_value(7000 + 31 * r + p) - 0.8 for p in range(n1)] for r in range(max(1, n1 - 1) if case["id"] % 2 else n1 + 1)])
        if fam == "asym":
            n2 = want.shape[1]
            U2 = np.array([[sym_value(9000 + 17 * r + p) - 0.8 for p in range(n2)] for r in range(n2 + 1)])
            variants = [("both", U1, U2), ("first only", U1, None), ("second only", None, U2)]
            for nm_, a, b in variants:
                got = obj.construct_array_lincomb(a, b, t1, t2)
                w = want
                if a is not None:
                    w = np.tensordot(a, w, (1, 0))
                if b is not None:
                    w = np.moveaxis(np.tensordot(b, w, (1, 1)), 0, 1)
                dev = float(common.above_noise(np.abs(got - w).max()) / (np.abs(w).max() + 1e-300)) if got.shape == w.shape else float("inf")
                res["dev"] = max(res["dev"], dev if np.isfinite(dev) else 0)
                if not dev <= 1e-10:
                    res["violations"].append("construct_array_lincomb (%s) of a dummy asymmetric class: max relative deviation %.3g, shape %s vs %s"
                                             % (nm_, dev, got.shape, w.shape))
        else:
            got = obj.construct_array_lincomb(U1, t1)
            w = want
            for ax in range(nb):
                w = np.moveaxis(np.tensordot(U1, w, (1, ax)), 0, ax)
            dev = float(common.above_noise(np.abs(got - w).max()) / (np.abs(w).max() + 1e-300)) if got.shape == w.shape else float("inf")
            res["dev"] = max(res["dev"], dev if np.isfinite(dev) else 0)
            if not dev <= 1e-10:
                res["violations"].append("construct_array_lincomb of a dummy %s-index class with a %s transformation: max relative deviation %.3g, shape %s vs %s"
                                         % (fam, U1.shape, dev, got.shape, w.shape))
    res["sig"] = (fam, tuple(t1), tuple(t2 or ()), pat["lin"], tuple((s["l"], len(s["coeffs"][0])) for s in b1))
    return res


# ------------------------------------------------------------------------------------------ (b) public functions
def public_calls(gb, with_eri):
    """name -> (function of (basis, transform) -> array, number of leading basis axes)."""
    pts = np.array([[0.1, -0.2, 0.3], [1.0, 0.5, -0.7], [0.0, 0.0, 0.0]])
    chg = np.array([1.0, -2.5, 0.5])
    org = np.array([0.3, -0.1, 0.2])
    ords = np.array([[1, 0, 2], [0, 1, 0], [0, 0, 0]])
    kw = lambda T: {} if T is None else {"transform": T}  # noqa: E731
    m = gb.mod
    calls = {
        "overlap_integral": (lambda b, T: m("gbasis.integrals.overlap").overlap_integral(b, **kw(T)), 2),
        "overlap_integral(tol_screen=0.3)": (lambda b, T: m("gbasis.integrals.overlap").overlap_integral(b, tol_screen=0.3, **kw(T)), 2),
        "kinetic_energy_integral": (lambda b, T: m("gbasis.integrals.kinetic_energy").kinetic_energy_integral(b, **kw(T)), 2),
        "moment_integral": (lambda b, T: m("gbasis.integrals.moment").moment_integral(b, org, ords, **kw(T)), 2),
        "momentum_integral": (lambda b, T: m("gbasis.integrals.momentum").momentum_integral(b, **kw(T)), 2),
        "angular_momentum_integral": (lambda b, T: m("gbasis.integrals.angular_momentum").angular_momentum_integral(b, **kw(T)), 2),
        "point_charge_integral": (lambda b, T: m("gbasis.integrals.point_charge").point_charge_integral(b, pts, chg, **kw(T)), 2),
        "nuclear_electron_attraction_integral": (lambda b, T: m("gbasis.integrals.nuclear_electron_attraction").nuclear_electron_attraction_integral(b, pts, chg, **kw(T)), 2),
        "evaluate_basis": (lambda b, T: m("gbasis.evals.eval").evaluate_basis(b, pts, **kw(T)), 1),
        "evaluate_deriv_basis": (lambda b, T: m("gbasis.evals.eval_deriv").evaluate_deriv_basis(b, pts, np.array([1, 0, 2]), **kw(T)), 1),
        "evaluate_deriv_basis(direct)": (lambda b, T: m("gbasis.evals.eval_deriv").evaluate_deriv_basis(b, pts, np.array([1, 2, 0]), deriv_type="direct", **kw(T)), 1),
    }
    if with_eri:
        calls["electron_repulsion_integral(chemist)"] = (lambda b, T: m("gbasis.integrals.electron_repulsion").electron_repulsion_integral(b, notation="chemist", **kw(T)), 4)
        calls["electron_repulsion_integral(physicist)"] = (lambda b, T: m("gbasis.integrals.electron_repulsion").electron_repulsion_integral(b, notation="physicist", **kw(T)), 4)
    return calls


def block_W(basis):
    """Block-diagonal matrix taking the all-Cartesian function list to the typed one."""
    rows = sum(layout.size(s) for s in basis)
    cols = sum(layout.nseg(s) * layout.ncart(s["l"]) for s in basis)
    W = np.zeros((rows, cols))
    r = c = 0
    for s in basis:
        w = layout.weight(s)
        nc = layout.ncart(s["l"])
        for _ in range(layout.nseg(s)):
            W[r:r + w.shape[0], c:c + nc] = w
            r += w.shape[0]
            c += nc
    return W


def apply_all(W, arr, nb):
    for ax in range(nb):
        arr = np.moveaxis(np.tensordot(W, arr, (1, ax)), 0, ax)
    return arr


def replay_public(case):
    from .. import gb
    rng = cg.rng_for(case["seed"], "public", case["id"])
    types = case["types"]
    eri = case["eri"]
    basis = []
    cens = [cg.center(rng, 1.5) for _ in range(2)]
    for ty in types:
        l = rng.randint(0, 2 if eri else 4)
        basis.append(cg.shell(rng, l, K=rng.randint(1, 2), M=rng.randint(1, 2 if eri else 3), typ=ty, hi=4.0, lo=0.2,
                              cen=rng.choice(cens) if rng.random() < 0.5 else None))
    cart = [dict(s, type="cartesian") for s in basis]
    shells = gb.make_basis(basis)
    cshells = gb.make_basis(cart)
    W = block_W(basis)
    n = W.shape[0]
    U = np.array([[cg.val(cg.dyadic(rng.uniform(-1, 1), 8)) for _ in range(n)] for _ in range(rng.choice([max(1, n - 2), n, n + 1]))])
    res = {"id": case["id"], "violations": [], "dev": 0.0, "sig": (tuple(types), eri, tuple(s["l"] for s in basis))}
    for name, (f, nb) in public_calls(gb, eri).items():
        if eri != name.startswith("electron") and eri:
            continue
        base = f(cshells, None)
        typed = f(shells, None)
        want = apply_all(W, base, nb)
        sc = np.abs(want).max() + 1e-300
        dev = float(common.above_noise(np.abs(typed - want).max()) / sc) if typed.shape == want.shape else float("inf")
        if not dev <= 1e-9:
            res["violations"].append("%s: result for types %s differs from the Cartesian result contracted with the shells' "
                                     "transformation matrices (max relative deviation %.3g, shape %s vs %s)" % (name, types, dev, typed.shape, want.shape))
        else:
            res["dev"] = max(res["dev"], dev)
        if case["id"] % 3 == 0:      # a transformation close to (but not) the identity is still a transformation
            Un = np.eye(n) * (1 + 2.0 ** -18) + 2.0 ** -30 * (np.arange(n * n).reshape(n, n) % 7 - 3)
            ln = f(shells, Un)
            wn = apply_all(Un, typed, nb)
            dn = float(common.above_noise(np.abs(ln - wn).max()) / (np.abs(wn).max() + 1e-300)) if ln.shape == wn.shape else float("inf")
            if not dn <= 1e-9:
                res["violations"].append("%s(transform = identity + 4e-6): differs from the untransformed array with the matrix applied to "
                                         "every basis index (max relative deviation %.3g)" % (name, dn))
        if case["id"] % 3 == 1 and n >= 3:
            # 0/1-valued matrices that are not permutations or selections: a row holding two ones (the sum of two functions),
            # a row of zeros, disjoint columns; and a true selection (rows of the identity in another order)
            Ua = np.zeros((3, n))
            Ua[0, 0] = Ua[0, 1] = 1.0
            Ua[2, n - 1] = 1.0
            Us = np.eye(n)[[n - 1, 0, 1][: min(3, n)]]
            for nm_, Um in (("a 0/1 matrix with a row of two ones and a row of zeros", Ua), ("a selection of basis functions", Us)):
                lm = f(shells, Um)
                wm = apply_all(Um, typed, nb)
                dm_ = float(common.above_noise(np.abs(lm - wm).max()) / (np.abs(wm).max() + 1e-300)) if lm.shape == wm.shape else float("inf")
                if not dm_ <= 1e-9:
                    res["violations"].append("%s(transform = %s): differs from the untransformed array with the matrix applied to every "
                                             "basis index (max relative deviation %.3g)" % (name, nm_, dm_))
        lin = f(shells, U)
        wantl = apply_all(U, typed, nb)
        scl = np.abs(wantl).max() + 1e-300
        devl = float(common.above_noise(np.abs(lin - wantl).max()) / scl) if lin.shape == wantl.shape else float("inf")
        if not devl <= 1e-9:
            res["violations"].append("%s(transform=U %s): differs from the untransformed array with U applied to every basis index "
                                     "(max relative deviation %.3g, shape %s vs %s)" % (name, U.shape, devl, lin.shape, wantl.shape))
        else:
            res["dev"] = max(res["dev"], devl)
    if not eri:
        b2 = [cg.shell(rng, rng.randint(0, 3), K=1, M=rng.randint(1, 2), typ=rng.choice(["cartesian", "spherical"]), hi=3.0)]
        oa = gb.mod("gbasis.integrals.overlap_asymm").overlap_integral_asymmetric
        typed = oa(shells, gb.make_basis(b2))
        base = oa(cshells, gb.make_basis([dict(s, type="cartesian") for s in b2]))
        want = np.tensordot(np.tensordot(W, base, (1, 0)), block_W(b2), (1, 1))
        dev = float(np.abs(typed - want).max()) if typed.shape == want.shape else float("inf")
        if not dev <= 1e-9:
            res["violations"].append("overlap_integral_asymmetric: typed result differs from the transformed Cartesian one (%.3g)" % dev)
        U2 = np.array([[0.5 * (-1) ** (r + p) + 0.1 * p for p in range(typed.shape[1])] for r in range(typed.shape[1] + 1)])
        for a, b in ((U, U2), (U, None), (None, U2)):
            lin = oa(shells, gb.make_basis(b2), transform_one=a, transform_two=b)
            w = typed
            if a is not None:
                w = np.tensordot(a, w, (1, 0))
            if b is not None:
                w = np.tensordot(w, b, (1, 1))
            dev = float(np.abs(lin - w).max()) if lin.shape == w.shape else float("inf")
            if not dev <= 1e-9 * (np.abs(w).max() + 1):
                res["violations"].append("overlap_integral_asymmetric with transformations (%s, %s): deviation %.3g"
                                         % (None if a is None else a.shape, None if b is None else b.shape, dev))
    return res


# ------------------------------------------------------------------------------------------ (c) conventions
def replay_convention(case):
    """A shell subclass reporting its components in another order / sign: outputs permuted and signed accordingly."""
    from .. import gb
    rng = cg.rng_for(case["seed"], "conv", case["id"])
    Base = gb.Shell()
    l = case["l"]
    comps = exact.cart_components(l)
    cart = [comps[i - 1] for i in case["cart"]]
    labs = tuple(("-" if x["neg"] else "") + x["kind"] + str(x["m"]) for x in case["labels"])

    class Conv(Base):
        @property
        def angmom_components_cart(self):
            return np.array(cart)

        @property
        def angmom_components_sph(self):
            return labs

    typ = case["typ"]
    other = cg.shell(rng, rng.randint(0, 2), K=1, M=1, typ=rng.choice(["cartesian", "spherical"]), hi=2.0, lo=0.3)
    me = cg.shell(rng, l, K=2, M=2, typ=typ, hi=2.0, lo=0.3)
    ref = gb.make_basis([other, me])
    cv = [gb.make_shell(other), gb.make_shell(me, Conv)]
    # index law: position of (segment m, component c) of the convention shell in the default shell, and sign
    n0 = layout.size(other)
    if typ == "cartesian":
        src = [comps.index(c) for c in cart]
        sgn = [1.0] * len(src)
    else:
        dl = exact.sph_labels(l)
        src, sgn = [], []
        for lab in labs:
            s, m = exact.parse_sph_label(lab)
            src.append(dl.index(("c%d" % m) if m >= 0 else ("s%d" % -m)))
            sgn.append(float(s))
    nc = len(src)
    P = np.zeros((n0 + 2 * nc, n0 + 2 * nc))
    P[:n0, :n0] = np.eye(n0)
    for m in range(2):
        for c in range(nc):
            P[n0 + m * nc + c, n0 + m * nc + src[c]] = sgn[c]
    res = {"id": case["id"], "violations": [], "dev": 0.0, "sig": (l, typ, tuple(case["cart"]), labs)}
    for name, (f, nb) in public_calls(gb, l <= 1).items():
        if name.startswith("electron") and l > 1:
            continue
        want = apply_all(P, f(ref, None), nb)
        got = f(cv, None)
        dev = float(common.above_noise(np.abs(got - want).max()) / (np.abs(want).max() + 1e-300)) if got.shape == want.shape else float("inf")
        if not dev <= 1e-9:
            res["violations"].append("%s: a %s shell (l=%d) reporting components %s / %s does not give outputs permuted and signed accordingly "
                                     "(max relative deviation %.3g)" % (name, typ, l, case["cart"], labs, dev))
        else:
            res["dev"] = max(res["dev"], dev)
    return res


# ------------------------------------------------------------------------------------------ main
def run(pid, tier, seed, only_case=None):
    ctx = common.Ctx(pid, tier, seed)
    ctx.write_evidence = ctx.write_evidence and only_case is None
    quick = tier == "quick"
    workers = {"dummy": replay_dummy, "public": replay_public, "conv": replay_convention}
    if only_case is not None:
        r = workers[only_case["kind"]](only_case)
        for v in r["violations"]:
            ctx.violation({"function": v.split(":")[0].split(" ")[0], "kind": only_case["kind"]}, v, {"module": "c09", "case": only_case})
        ctx.replayed = 1
        return ctx.finish()
    jobs = [
        lambda: run_mcassembly(ctx, "one", 4, workers=3),
        lambda: run_mcassembly(ctx, "sym", 3, workers=3),
        lambda: run_mcassembly(ctx, "sym", 2 if quick else 3, klass="symmetric", fill="transpose", workers=2),
        lambda: run_mcassembly(ctx, "asym", 2 if quick else 3, workers=3),
        lambda: run_mcassembly(ctx, "four", 2, workers=4),
        lambda: run_mcassembly(ctx, "sym", 2, fill="transpose", klass="hermitian", expect_violation=True, workers=1),
        lambda: run_mcassembly(ctx, "sym", 2, mut="component_major", expect_violation=True, workers=1),
        lambda: run_mcassembly(ctx, "one", 2, mut="component_major", expect_violation=True, workers=1),
        lambda: run_mcassembly(ctx, "four", 2, mut="norm4", expect_violation=True, workers=2),
        lambda: run_numpyreplay(ctx, 2 if quick else 3),
    ]
    from . import c10
    jobs.append(lambda: c10.run_conventions(ctx, 1, 3, {"swap", "flip", "cart"}, "l=1"))
    jobs.append(lambda: c10.run_conventions(ctx, 2, 2 if quick else 3, {"swap", "flip", "cart"}, "l=2"))
    jobs.append(lambda: c10.run_conventions(ctx, 3, 1 if quick else 2, {"swap", "flip", "cart"}, "l=3"))
    results = common.run_models_parallel(jobs)
    pats = [p for lst in results[:5] for p in lst]
    convs = [c for lst in results[-3:] for c in lst]
    cases = []
    seen = set()
    for p in pats:
        key = (p["family"], tuple(p["types"]), tuple(p["types2"] or ()), p["lin"])
        if key in seen:
            continue
        seen.add(key)
        for herm in ([False, True] if p["family"] == "sym" else [False]):
            cases.append({"id": len(cases) + 1, "kind": "dummy", "pat": p, "herm": herm, "seed": seed})
    ndummy = len(cases)
    # (b) public functions: every type pattern of 1..3 shells (1..2 with the repulsion integrals)
    for n in (1, 2, 3):
        for types in itertools.product(["cartesian", "spherical"], repeat=n):
            cases.append({"id": len(cases) + 1, "kind": "public", "types": list(types), "eri": False, "seed": seed})
            if n <= 2:
                cases.append({"id": len(cases) + 1, "kind": "public", "types": list(types), "eri": True, "seed": seed})
    if not quick:
        for types in itertools.product(["cartesian", "spherical"], repeat=4):
            cases.append({"id": len(cases) + 1, "kind": "public", "types": list(types), "eri": False, "seed": seed})
    npublic = len(cases) - ndummy
    # (c) conventions: a seeded sample of the enumerated ones (all for l = 1)
    rng = cg.rng_for(seed, "c09conv")
    pick = [c for c in convs if c["l"] == 1] + rng.sample([c for c in convs if c["l"] == 2], 40 if quick else 400) \
        + rng.sample([c for c in convs if c["l"] == 3], 12 if quick else 120)
    if quick:
        pick = rng.sample([c for c in pick if c["l"] == 1], 40) + [c for c in pick if c["l"] > 1]
    for c in pick:
        for typ in ("cartesian", "spherical"):
            cases.append({"id": len(cases) + 1, "kind": "conv", "l": c["l"], "cart": c["cart"], "labels": c["labels"],
                          "typ": typ, "seed": seed})
    cases.sort(key=lambda c: 0 if (c["kind"] == "dummy" and c["pat"]["family"] == "four") or c.get("eri") else 1)
    out = common.pmap(_dispatch, cases)
    for c, r in zip(cases, out):
        if common.impl_failure(ctx, r, c, "c09", c["kind"]):
            continue
        ctx.replayed += 1
        ctx.case_done((c["kind"],) + tuple(r.get("sig", ())))
        ctx.note_dev(c["kind"], r["dev"])
        for v in r["violations"]:
            ctx.violation({"function": v.split(":")[0].split(" ")[0], "kind": c["kind"]}, "case %d: %s" % (c["id"], v),
                          {"module": "c09", "case": c})
    ctx.extra.update({"dummy_block_cases": ndummy, "public_function_cases": npublic,
                      "convention_cases": len(cases) - ndummy - npublic, "exhaustive": True,
                      "exhaustive_note": "every cartesian/spherical assignment for 1-4 shells (one index), 1-3 (two indices), 1-2 (four indices), "
                                         "symbolically in TLC and on dummy blocks in gbasis; conventions and shell shapes are sampled"})
    ctx.rule = ("type patterns enumerated by TLC (MCAssembly initial states); per pattern seeded real shells with pairwise distinct "
                "(l, M); a case is distinct by (family, type pattern, lincomb, shapes) and non-trivial unless it is a single "
                "s-type shell")
    ctx.samples = [cases[0], cases[ndummy], cases[-1]]
    ctx.assumptions = ["numpy implements the array operations as NumpyOps.tla describes them (bound by NumpyReplay on every run)",
                       "the dummy kernels have the symmetry of their class (symmetric / Hermitian / eight-fold) by construction"]
    return ctx.finish()


def _dispatch(case):
    return {"dummy": replay_dummy, "public": replay_public, "conv": replay_convention}[case["kind"]](case)
