"""C04 -- electron-repulsion integrals in both index conventions.

TLC: ReplayRys evaluates the two-electron Rys-polynomial DEFINITION (bivariate-normal moments, Isserlis) at the
exact parameters of primitive quartets taken from the cases (two primes) and checks that it reduces to the
one-electron definition.  Replay: every 4-tuple of angular momenta 0..3 (256, enumerated), 1-3 primitives, 1-2
segments, coincident / collinear / general centres, exponents 0.1..10 (0.2..5 with an f shell): the shell block
returned by gbasis against exact values with tolerance 1e-6*sqrt((ab|ab)(cd|cd)) (both Schwarz factors exact);
whole-basis calls in both notations and all coordinate types; the fixed list of ill-conditioned quartets
(tight core s against diffuse d/f) in both bra/ket orientations.
"""
import itertools

import numpy as np

from .. import cases as cg
from .. import exact, layout, sev, tlc
from . import common, rys


def run_hgp2e(ctx, prime, slip, shapes):
    """The as-implemented Head-Gordon-Pople chain (HGP2e.tla) against the Rys definition on a rational grid."""
    d = tlc.scratch("hgp")
    body = """
CONSTANT P
E == INSTANCE Exact
R == INSTANCE Rys
Ax(a, b, c, d, A, B, C, D) == R!Derive2([a |-> E!FromRat(a), b |-> E!FromRat(b), c |-> E!FromRat(c), d |-> E!FromRat(d),
                                         A |-> E!FromRat(A), B |-> E!FromRat(B), C |-> E!FromRat(C), D |-> E!FromRat(D)])
Q1 == <<Ax(<<1,2>>, <<3,1>>, <<5,2>>, <<1,1>>, <<0,1>>, <<1,1>>, <<1,2>>, <<-1,1>>),
        Ax(<<1,2>>, <<3,1>>, <<5,2>>, <<1,1>>, <<1,2>>, <<-1,1>>, <<2,1>>, <<0,1>>),
        Ax(<<1,2>>, <<3,1>>, <<5,2>>, <<1,1>>, <<0,1>>, <<-3,2>>, <<-1,1>>, <<3,1>>)>>
Q2 == <<Ax(<<7,2>>, <<1,3>>, <<1,1>>, <<4,1>>, <<1,1>>, <<1,1>>, <<0,1>>, <<2,1>>),
        Ax(<<7,2>>, <<1,3>>, <<1,1>>, <<4,1>>, <<0,1>>, <<1,2>>, <<0,1>>, <<0,1>>),
        Ax(<<7,2>>, <<1,3>>, <<1,1>>, <<4,1>>, <<-1,1>>, <<2,1>>, <<1,4>>, <<-1,2>>)>>
MCQuartets == {Q1, Q2}
MCShapes == {%s}
VARIABLES r, shape, tabs, vert, et, hd, hb, pc, fresh
INSTANCE HGP2e WITH Quartets <- MCQuartets, Shapes <- MCShapes, Slip <- "%s"
""" % (", ".join("<<%d, %d, %d, %d>>" % s_ for s_ in shapes), slip)
    tlc.write_module(d, "MC_HGP", body)
    try:
        res = tlc.run(d, "MC_HGP", "CONSTANT P = %d\nSPECIFICATION Spec\nINVARIANT VertOK\nINVARIANT TransferOK\nINVARIANT HorizDOK\n"
                      "INVARIANT HorizBOK\nINVARIANT DoneOK\n" % prime, workers=8, timeout=3000)
    finally:
        tlc.cleanup(d)
    if slip != "none":
        if res.ok:
            raise tlc.MachineryError("negative control: HGP2e with the y component in the z electron-transfer step still equals the definition")
        ctx.extra.setdefault("negative_controls_detected_by_TLC", []).append("HGP2e with a wrong axis in the z electron transfer violates " + str(res.violated))
        return
    if not res.ok:
        ctx.spec_violation("HGP2e", res)
    ctx.add_tlc("HGP2e(P=%d): as-implemented vertical / electron-transfer / horizontal recursions = Rys definition, shapes %s" % (prime, shapes), res)


def geometry(rng, kind):
    if kind == "coincident":
        c = cg.center(rng)
        return [c, c, c, c]
    if kind == "collinear":
        base = cg.center(rng, 1.0)
        dirn = [rng.randint(-2, 2) for _ in range(3)]
        if not any(dirn):
            dirn = [1, 0, -1]
        out = []
        for t in rng.sample(range(-3, 4), 4):
            out.append([cg.dyadic(cg.val(b) + t * d / 2.0, 30) for b, d in zip(base, dirn)])
        return out
    if kind == "pairs":
        a, b = cg.center(rng), cg.center(rng)
        return rng.choice([[a, a, b, b], [a, b, a, b], [a, b, b, a]])
    return [cg.center(rng) for _ in range(4)]


def gen_tuple_cases(tier, seed):
    quick = tier == "quick"
    bits = 24
    cases = []
    for ls in itertools.product(range(4), repeat=4):
        for d in range(1 if quick else 2):
            rng = cg.rng_for(seed, "C04", ls, d)
            L = sum(ls)
            lo, hi = (0.2, 5.0) if 3 in ls else (0.1, 10.0)
            kmax = 3 if L <= 4 else (2 if L <= 8 else 1) if quick else (3 if L <= 6 else 2)
            mmax = 2 if L <= 8 else 1
            geo = geometry(rng, rng.choice(["coincident", "collinear", "pairs", "general", "general"]))
            shs = [cg.shell(rng, l, K=rng.randint(1, kmax), M=rng.randint(1, mmax), typ="cartesian", cen=geo[n],
                            lo=lo, hi=hi, bits=bits) for n, l in enumerate(ls)]
            cases.append({"id": len(cases) + 1, "kind": "quartet", "shells": shs})
    return cases


def core_s(e):
    return {"l": 0, "center": [[0, 0]] * 3, "exps": [cg.dyadic(e, 20)], "coeffs": [[[1, 0]]], "type": "cartesian"}


def diffuse(l, e):
    return {"l": l, "center": [cg.dyadic(0.8, 20), cg.dyadic(0.25, 20), cg.dyadic(-0.125, 20)],
            "exps": [cg.dyadic(e, 20)], "coeffs": [[[1, 0]]], "type": "cartesian"}


def fixed_list():
    """DESIGN.md appendix F: realistic ill-conditioned quartets, each also with bra and ket exchanged."""
    S, D, F = core_s, lambda e: diffuse(2, e), lambda e: diffuse(3, e)
    sdiff = {"l": 0, "center": [[0, 0]] * 3, "exps": [cg.dyadic(0.3, 20)], "coeffs": [[[1, 0]]], "type": "cartesian"}
    base = [("F1 (s 1e5, s 1e5 | f 0.2, f 0.2)", [S(1e5), S(1e5), F(0.2), F(0.2)]),
            ("F2 (s 1e4, s 1e4 | f 0.2, f 0.2)", [S(1e4), S(1e4), F(0.2), F(0.2)]),
            ("F3 (s 1e5, s 1e5 | d 0.1, d 0.1)", [S(1e5), S(1e5), D(0.1), D(0.1)]),
            ("F4 (s 1e5, f 0.2 | s 1e5, f 0.2)", [S(1e5), F(0.2), S(1e5), F(0.2)]),
            ("F5 (s 1e5, d 0.1 | f 0.2, f 0.2)", [S(1e5), D(0.1), F(0.2), F(0.2)]),
            ("F6 (s 1e5, s 0.3 | d 0.1, f 0.2)", [S(1e5), sdiff, D(0.1), F(0.2)])]
    # F7: the repository's own xfail case (contracted core s shells against an f primitive)
    e1 = [2.14774699e6, 3.21658095e5, 7.32014947e4, 2.07341803e4, 6.76433527e3, 2.44176176e3, 9.52058174e2, 3.94569612e2]
    c1 = [2.4e-5, 1.89e-4, 9.9e-4, 4.14e-3, 1.49e-2, 4.54e-2, 1.16e-1, 2.25e-1]
    core = {"l": 0, "center": [[0, 0]] * 3, "exps": [cg.dyadic(e, 24) for e in e1],
            "coeffs": [[cg.dyadic(c, 16)] for c in c1], "type": "cartesian"}
    base.append(("F7 (contracted core s, contracted core s | f 0.725333, f 0.725333)",
                 [core, core, diffuse(3, 0.725333), diffuse(3, 0.725333)]))
    # the same physics with the primitives of the contracted core shell listed most-diffuse-first, and a two-primitive
    # core shell whose tight primitive comes last (the order of primitives must not matter)
    rev = dict(core, exps=list(reversed(core["exps"])), coeffs=list(reversed(core["coeffs"])))
    base.append(("F8 (F7 with the core primitives listed in increasing order)", [rev, rev, diffuse(3, 0.725333), diffuse(3, 0.725333)]))
    two = {"l": 0, "center": [[0, 0]] * 3, "exps": [cg.dyadic(0.12, 20), cg.dyadic(1.0e5, 20)], "coeffs": [[[3, -2]], [[1, 0]]], "type": "cartesian"}
    base.append(("F9 (s {0.12, 1e5}, s {0.12, 1e5} | s 0.3, f 0.2)", [two, two, {"l": 0, "center": diffuse(3, 0.2)["center"], "exps": [cg.dyadic(0.3, 20)],
                                                                                "coeffs": [[[1, 0]]], "type": "cartesian"}, diffuse(3, 0.2)]))
    # a realistic five-primitive contracted core s shell (1e5 ... 0.15) written most-diffuse-first
    inc = {"l": 0, "center": [[0, 0]] * 3, "exps": [cg.dyadic(e, 20) for e in (0.15, 2.1, 40.0, 1.5e3, 1.0e5)],
           "coeffs": [[cg.dyadic(c, 12)] for c in (0.35, 0.45, 0.25, 0.05, 0.004)], "type": "cartesian"}
    fo = {"l": 3, "center": [cg.dyadic(0.3, 20), cg.dyadic(-0.7, 20), cg.dyadic(1.1, 20)], "exps": [cg.dyadic(0.25, 20)],
          "coeffs": [[[1, 0]]], "type": "cartesian"}
    so = dict(fo, l=0)
    base.append(("F10 (contracted core s listed in increasing order, same | f 0.25, f 0.25)", [inc, inc, fo, fo]))
    base.append(("F11 (contracted core s listed in increasing order, same | s 0.25, f 0.25)", [inc, inc, so, fo]))
    # generalized shells padded with zeros (as cc-pVXZ files are written), a coefficient within 4e-6 of one, and an (ff|ff)
    # quartet with two primitives per shell (the largest intermediate arrays of the run)
    zp = {"l": 1, "center": [cg.dyadic(0.4, 10), [0, 0], cg.dyadic(-0.3, 10)], "exps": [cg.dyadic(e, 12) for e in (6.5, 1.4, 0.35)],
          "coeffs": [[cg.dyadic(0.4, 8), [0, 0]], [cg.dyadic(0.7, 8), [0, 0]], [[0, 0], [1, 0]]], "type": "cartesian"}
    zs = {"l": 0, "center": [[0, 0]] * 3, "exps": [cg.dyadic(e, 12) for e in (9.0, 1.1)], "coeffs": [[[1, 0], [0, 0]], [[0, 0], [1, 0]]], "type": "cartesian"}
    zd = {"l": 2, "center": [[0, 0], cg.dyadic(0.6, 10), [0, 0]], "exps": [cg.dyadic(0.9, 12)], "coeffs": [[[1, 0]]], "type": "spherical"}
    base.append(("F12 (zero-padded generalized shells)", [zs, zp, zd, zp]))
    base.append(("F13 (zero-padded generalized shells, other order)", [zp, zp, zs, zs]))
    nu = lambda l, e, c: {"l": l, "center": c, "exps": [cg.dyadic(e, 12)], "coeffs": [[[2 ** 18 + 1, -18]]], "type": "cartesian"}  # noqa: E731
    base.append(("F14 (single primitives with coefficient 1 + 2^-18)", [nu(0, 1.3, [[0, 0]] * 3), nu(1, 0.8, [cg.dyadic(0.5, 8), [0, 0], [0, 0]]),
                                                                       nu(0, 2.1, [[0, 0], cg.dyadic(-0.7, 8), [0, 0]]), nu(2, 0.6, [[0, 0]] * 3)]))
    f2 = lambda c: {"l": 3, "center": c, "exps": [cg.dyadic(1.7, 12), cg.dyadic(0.45, 12)], "coeffs": [[cg.dyadic(0.6, 8)], [cg.dyadic(0.5, 8)]],  # noqa: E731
                    "type": "cartesian"}
    base.append(("F15 (ff|ff) with two primitives per shell", [f2([[0, 0]] * 3), f2([cg.dyadic(0.9, 8), [0, 0], cg.dyadic(0.3, 8)]),
                                                             f2([[0, 0], cg.dyadic(-0.8, 8), [0, 0]]), f2([cg.dyadic(0.2, 8), cg.dyadic(0.4, 8), cg.dyadic(-0.6, 8)])]))
    # a diffuse shell listed BEFORE a tight one inside a pair (both with angular momentum): all angular momentum of a pair is
    # built on its first centre and moved to the second with (A - B), which cancels large numbers when the product centre
    # lies next to B (defect repaired by 19dda51: (ba|ba) was wrong by the size of the integral, (ab|ab) exact)
    td = {"l": 2, "center": [cg.dyadic(-0.4888, 16), cg.dyadic(1.8982, 16), cg.dyadic(0.1868, 16)],
          "exps": [cg.dyadic(0.4598, 16), cg.dyadic(25.77, 16), cg.dyadic(438.56, 16)], "coeffs": [[cg.dyadic(0.32, 8)], [cg.dyadic(0.48, 8)], [cg.dyadic(1.18, 8)]],
          "type": "cartesian"}
    dd = {"l": 2, "center": [cg.dyadic(0.6219, 16), cg.dyadic(0.3684, 16), cg.dyadic(-1.4485, 16)],
          "exps": [cg.dyadic(0.995, 16), cg.dyadic(0.0435, 16)], "coeffs": [[cg.dyadic(0.317, 8)], [cg.dyadic(0.771, 8)]], "type": "cartesian"}
    tp = dict(td, l=1, exps=[cg.dyadic(0.5, 16), cg.dyadic(15.0, 16), cg.dyadic(300.0, 16)])
    dp = dict(dd, l=1, exps=[cg.dyadic(1.0, 16), cg.dyadic(0.05, 16)])
    base.append(("F16 (diffuse d before tight d in both pairs)", [dd, td, dd, td]))
    base.append(("F17 (diffuse d before tight d in the first pair only)", [dd, td, td, dd]))
    base.append(("F18 (diffuse p before tight d, tight p before diffuse d)", [dp, td, tp, dd]))
    out = []
    for name, shs in base:
        out.append({"kind": "fixed", "name": name, "shells": shs})
        if not name.startswith("F15"):
            out.append({"kind": "fixed", "name": name + " bra<->ket", "shells": [shs[2], shs[3], shs[0], shs[1]]})
    return out


def gen_basis_cases(tier, seed):
    quick = tier == "quick"
    out = []
    for d in range(10 if quick else 60):
        rng = cg.rng_for(seed, "C04", "basis", d)
        n = rng.randint(2, 4)
        lmax = 2 if n <= 3 else 1
        cens = [cg.center(rng) for _ in range(3)]
        basis = []
        for _ in range(n):
            basis.append(cg.shell(rng, rng.randint(0, lmax), K=rng.randint(1, 2), M=rng.randint(1, 2), lo=0.1, hi=10.0,
                                  cen=rng.choice(cens) if rng.random() < 0.7 else None, bits=24))
        while sum(layout.size(s) for s in basis) > (14 if quick else 18):
            basis.pop()
        if d % 5 == 1:
            # tabulated contractions are normalised to the printed digits only: norm_cont within 4e-6 of one, not one
            for s_ in basis:
                s_["exps"] = s_["exps"][:1]
                s_["coeffs"] = [[[rng.choice([1, -1]) * (2 ** 18 + rng.choice([1, -1])), -18]]]
        c = {"kind": "basis", "basis": basis}
        if d % 4 == 0:
            nt = sum(layout.size(s) for s in basis)
            c["transform"] = [[cg.val(cg.dyadic(rng.uniform(-1, 1), 8)) for _ in range(nt)] for _ in range(rng.choice([2, nt, nt + 1]))]
        out.append(c)
    return out


def fp_case(case):
    shs = case["shells"] if "shells" in case else (case["basis"] * 4)[:4]
    if sum(s["l"] for s in shs) > 7:
        return None
    return {"id": case["id"], "kind": "2e", "e": [s["exps"][0] for s in shs], "X": [s["center"] for s in shs],
            "l": [s["l"] for s in shs]}


def normalised_block(shs, norms, hook=None):
    raw, rawabs = sev.raw_block_2e(shs, tables_hook=hook)
    for n in range(4):
        shp = [1] * 8
        shp[2 * n], shp[2 * n + 1] = norms[n].shape
        raw = raw * norms[n].reshape(shp)
        rawabs = rawabs * norms[n].reshape(shp)
    return raw, rawabs


def schwarz_diag(s1, s2, n1, n2):
    """(ab|ab) for all functions a of s1, b of s2: array (M1, L1, M2, L2)."""
    blk, _ = normalised_block([s1, s2, s1, s2], [n1, n2, n1, n2])
    return np.einsum("manbmanb->manb", blk)


def replay_quartet(case):
    from .. import gb
    shs = case["shells"]
    norms = [sev.contraction_norm(s) for s in shs]
    res = {"id": case["id"], "violations": [], "dev": 0.0, "fp": 0}
    hook = None
    if case.get("tlc"):
        def hook(idx, tabs):
            if idx != (0, 0, 0, 0):
                return
            for prime, tb in case["tlc"].items():
                for x in range(3):
                    k, ok = rys.compare_tables(tabs[x], tb[x + 1], int(prime), 4)
                    res["fp"] += k
                    if not ok:
                        res.setdefault("fp_bad", []).append((prime, x))
    want, wantabs = normalised_block(shs, norms, hook)
    sab = np.sqrt(np.abs(schwarz_diag(shs[0], shs[1], norms[0], norms[1])))
    scd = np.sqrt(np.abs(schwarz_diag(shs[2], shs[3], norms[2], norms[3])))
    scale = sab[:, :, :, :, None, None, None, None] * scd[None, None, None, None, :, :, :, :]
    shells = gb.make_basis(shs)
    E = gb.mod("gbasis.integrals.electron_repulsion").ElectronRepulsionIntegral
    got = E.construct_array_contraction(*shells)
    if got.shape != want.shape:
        res["violations"].append("ElectronRepulsionIntegral.construct_array_contraction: shape %s, expected %s" % (got.shape, want.shape))
        return res
    for n in range(4):                      # normalised with the shells' own norm_cont, as the assembly does
        shp = [1] * 8
        shp[2 * n], shp[2 * n + 1] = shells[n].norm_cont.shape
        got = got * shells[n].norm_cont.reshape(shp)
    tol = 1e-6 * scale + 1e-12 * wantabs
    dev = np.abs(got - want)
    res["dev"] = float((dev / (scale + 1e-300)).max())
    bad = ~(dev <= tol)
    if bad.any():
        idx = np.unravel_index(np.argmax(np.where(bad, dev / tol, 0)), dev.shape)
        res["violations"].append(
            "ElectronRepulsionIntegral.construct_array_contraction, angular momenta %s: element %s is %r, exact value %r, "
            "Schwarz scale %.3g (error %.3g of it, allowed 1e-6); %d of %d elements differ"
            % ([s["l"] for s in shs], tuple(int(i) for i in idx), got[idx], want[idx], scale[idx], dev[idx] / scale[idx],
               int(bad.sum()), bad.size))
    return res


def full_oracle(basis):
    """Whole tensor in chemists' notation from unique shell quartets + the permutational symmetry of exact integrals."""
    norms = [sev.contraction_norm(s) for s in basis]
    cache = {}

    def blk(ks):
        i, j, k, l = ks
        ab = (i, j) if i <= j else (j, i)
        cd = (k, l) if k <= l else (l, k)
        key = (ab, cd) if ab <= cd else (cd, ab)
        if key not in cache:
            q = key[0] + key[1]
            cache[key] = sev.raw_block_2e([basis[n] for n in q])
        raw, rawabs = cache[key]
        # bring the canonical block (p q | r s) to the requested orientation
        q = list(key[0] + key[1])
        # find the permutation of index positions
        cands = [(0, 1, 2, 3), (1, 0, 2, 3), (0, 1, 3, 2), (1, 0, 3, 2), (2, 3, 0, 1), (3, 2, 0, 1), (2, 3, 1, 0), (3, 2, 1, 0)]
        for perm in cands:
            if [q[perm[n]] for n in range(4)] == [i, j, k, l]:
                axes = [a for n in range(4) for a in (2 * perm[n], 2 * perm[n] + 1)]
                return np.transpose(raw, axes), np.transpose(rawabs, axes)
        raise AssertionError

    return layout.assemble([basis] * 4, blk, [norms] * 4)


def replay_basis(case):
    from .. import gb
    basis = case["basis"]
    want, wantabs = full_oracle(basis)
    n = want.shape[0]
    T = np.array(case["transform"]) if case.get("transform") is not None else None
    if T is not None:
        for ax in range(4):
            want = np.moveaxis(np.tensordot(T, want, (1, ax)), 0, ax)
            wantabs = np.moveaxis(np.tensordot(np.abs(T), wantabs, (1, ax)), 0, ax)
        n = want.shape[0]
    dg = np.sqrt(np.abs(np.einsum("abab->ab", want)))
    scale = dg[:, :, None, None] * dg[None, None, :, :]
    eri = gb.mod("gbasis.integrals.electron_repulsion").electron_repulsion_integral
    shells = gb.make_basis(basis)
    kw = {} if T is None else {"transform": T}
    res = {"id": case["id"], "violations": [], "dev": 0.0, "fp": 0}
    for notation in ("chemist", "physicist"):
        got = eri(shells, notation=notation, **kw)
        w, sc, wa = want, scale, wantabs
        if notation == "physicist":
            w, sc, wa = (np.transpose(x, (0, 2, 1, 3)) for x in (want, scale, wantabs))
        if got.shape != w.shape:
            res["violations"].append("electron_repulsion_integral(%s): shape %s, expected %s" % (notation, got.shape, w.shape))
            continue
        tol = 1e-6 * sc + 1e-12 * wa
        dev = np.abs(got - w)
        res["dev"] = max(res["dev"], float((dev / (sc + 1e-300)).max()))
        bad = ~(dev <= tol)
        if bad.any():
            idx = np.unravel_index(np.argmax(np.where(bad, dev / tol, 0)), dev.shape)
            res["violations"].append("electron_repulsion_integral(notation=%s%s): element %s is %r, exact value %r (Schwarz scale %.3g); %d elements differ"
                                     % (notation, ", transform" if T is not None else "", tuple(int(i) for i in idx), got[idx], w[idx], sc[idx], int(bad.sum())))
    return res


def _dispatch(case):
    return replay_basis(case) if case["kind"] == "basis" else replay_quartet(case)


def run(pid, tier, seed, only_case=None):
    ctx = common.Ctx(pid, tier, seed)
    ctx.write_evidence = ctx.write_evidence and only_case is None
    if only_case is not None:
        cases = [only_case]
    else:
        cases = gen_tuple_cases(tier, seed) + fixed_list() + gen_basis_cases(tier, seed)
        for n, c in enumerate(cases):
            c["id"] = n + 1
    # ---- TLC: definitions at the parameters of a sample of the quartets
    fl, sums = [], set()
    stride = 6 if tier == "quick" else 2
    for c in cases:
        c.pop("tlc", None)
        if c["kind"] == "quartet" and (c["id"] % stride == 0 or only_case is not None):
            f = fp_case(c)
            if f is not None:
                fl.append(f)
                e = [exact.dy(x) for x in f["e"]]
                sums |= {(e[0] + e[1]).numerator, (e[2] + e[3]).numerator, (e[0] + e[1] + e[2] + e[3]).numerator}
    primes = rys.pick_primes(sums)
    if fl:
        jobs = [lambda: rys.run_replayrys(ctx, fl, primes[0], 5), lambda: rys.run_replayrys(ctx, fl, primes[1], 5)]
        if only_case is None:
            shapes = [(1, 0, 1, 0), (1, 1, 0, 0), (0, 0, 1, 1), (1, 0, 1, 1)] + ([] if tier == "quick" else [(1, 1, 1, 0), (2, 0, 1, 0), (1, 0, 2, 0), (0, 1, 1, 1)])
            jobs += [lambda: run_hgp2e(ctx, primes[0], "none", shapes), lambda: run_hgp2e(ctx, primes[0], "transfer", [(1, 0, 1, 1)])]
        r = common.run_models_parallel(jobs)
        byid = {c["id"]: c for c in cases}
        for f in fl:
            byid[f["id"]]["tlc"] = {str(primes[0]): r[0][f["id"]], str(primes[1]): r[1][f["id"]]}
    cost = lambda c: -(sum(s["l"] for s in c.get("shells", [])) + 3 * len(c.get("basis", [])))  # noqa: E731
    order = sorted(range(len(cases)), key=lambda i: cost(cases[i]))
    out = common.pmap(_dispatch, [cases[i] for i in order])
    fp = 0
    for i, rr in zip(order, out):
        c = cases[i]
        cc = {k: v for k, v in c.items() if k != "tlc"}
        key = {"function": "electron_repulsion", "case": c.get("name", c["kind"])}
        if isinstance(rr, common.ImplFailure):
            ctx.replayed += 1
            ctx.violation(dict(key, exception=True), "case %d: %s" % (c["id"], rr.msg), {"module": "c04", "case": cc})
            continue
        if rr.get("fp_bad"):
            raise tlc.MachineryError("harness two-electron Rys tables disagree with TLC in case %d: %s" % (c["id"], rr["fp_bad"]))
        fp += rr["fp"]
        ctx.replayed += 1
        shs = c.get("shells") or c["basis"]
        ctx.case_done(("c04", c["kind"], c.get("name"), tuple((s["l"], len(s["exps"]), len(s["coeffs"][0]), s["type"]) for s in shs)),
                      nontrivial=any(s["l"] for s in shs))
        ctx.note_dev("%s: error / Schwarz scale" % ("fixed ill-conditioned list" if c["kind"] == "fixed" else c["kind"]), rr["dev"])
        for v in rr["violations"]:
            ctx.violation(key, "case %d%s: %s" % (c["id"], " [" + c["name"] + "]" if c.get("name") else "", v),
                          {"module": "c04", "case": cc})
    ctx.extra["rys_polynomials_fingerprinted_against_TLC"] = fp
    ctx.extra["primes"] = primes
    ctx.extra["exhaustive"] = False
    ctx.rule = ("all 256 four-tuples of angular momenta 0..3 enumerated (seeded primitives, segments, geometry class), the fixed "
                "list of ill-conditioned quartets in both orientations, whole bases of 2-4 shells in both notations; distinct by "
                "shell tuple; a case with four s shells is trivial")
    ctx.samples = [{k: v for k, v in cases[100].items() if k != "tlc"}] if len(cases) > 100 else []
    ctx.assumptions = ["Boys function by mpmath at exact arguments", "TLC residues modulo two primes stand for the Rys polynomials",
                       "the Schwarz factors (ab|ab), (cd|cd) used as the error scale are the exact ones"]
    return ctx.finish()
