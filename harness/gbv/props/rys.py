"""Shared by C03 / C04 / C14: TLC evaluation of the Rys-polynomial definitions at parameters taken from the
replay cases, and the comparison of the harness' exact tables with TLC's residues."""
import os

from .. import exact, tlc

GRID = [((1, 2), (3, 1), (5, 2), (0, 1), (1, 1), (-3, 2)), ((7, 2), (1, 1), (1, 3), (1, 2), (-1, 1), (2, 1)),
        ((1, 1), (1, 1), (9, 1), (0, 1), (0, 1), (1, 2)), ((3, 1), (1, 2), (1, 1), (-1, 1), (2, 1), (2, 1))]


def run_replayrys(ctx, fcases, prime, workers=8, gridl=2):
    """fcases: list of dicts {id, kind, e, X, l}.  Returns {id: {axis: table}}."""
    d = tlc.scratch("rys")
    os.makedirs(os.path.join(d, "out"))
    tlc.write_module(d, "MC_Rys", "\nCONSTANT P\nVARIABLES cid, axis, done\nMCCases == %s\nMCGrid == %s\n"
                     "INSTANCE ReplayRys WITH Cases <- MCCases, GridRecs <- MCGrid, GridL <- %d\n"
                     % (tlc.tla_value(fcases), tlc.tla_value([[list(q) for q in g] for g in GRID]), gridl))
    res = tlc.run(d, "MC_Rys", "CONSTANT P = %d\nSPECIFICATION Spec\n" % prime, workers=workers, timeout=3000,
                  env={"GBV_OUT": os.path.join(d, "out")})
    if not res.ok:
        tlc.cleanup(d)
        ctx.spec_violation("ReplayRys", res)
    ctx.add_tlc("ReplayRys(P=%d): Rys-polynomial definitions at the parameters of %d primitive pairs/quartets; "
                "two-electron definition reduces to the one-electron one on the grid" % (prime, len(fcases)), res)
    out = tlc.read_json_dir(os.path.join(d, "out"), "rys_")
    tlc.cleanup(d)
    if len(out) != 3 * len(fcases):
        raise tlc.MachineryError("ReplayRys wrote %d of %d files" % (len(out), 3 * len(fcases)))
    by = {}
    for v in out.values():
        by.setdefault(v["id"], {})[v["axis"]] = v["tab"]
    return by


def pick_primes(sums, n=2):
    good = [p for p in tlc.PRIMES if all(x % p for x in sums)]
    if len(good) < n:
        raise tlc.MachineryError("not enough usable primes")
    return good[:n]


def poly_mod(poly, p):
    out = [exact.modp(c, p) for c in poly]
    while len(out) > 1 and out[-1] == 0:
        out.pop()
    return out


def compare_tables(mine, theirs, p, depth):
    """mine: nested lists of Fraction polynomials; theirs: nested lists of residue polynomials."""
    n = 0
    if depth == 0:
        return (1, poly_mod(mine, p) == list(theirs))
    if len(mine) != len(theirs):
        return (0, False)
    ok = True
    for a, b in zip(mine, theirs):
        k, o = compare_tables(a, b, p, depth - 1)
        n += k
        ok = ok and o
    return n, ok
