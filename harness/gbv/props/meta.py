"""C11 (index symmetries, shell reordering) and C13 (contractions as linear combinations).

TLC (Rewrites.tla): a basis under shell transpositions (C11) or contraction rewrites -- split a generalized
shell, permute primitives, split a primitive, scale a column by a positive or negative factor (C13) -- as a state
machine; in every reachable state the denotation of every column is the original one and the function list is
a permutation of the original list.  Every reachable state is replayed: real shells are built from the state,
every integral and evaluation module is run on the original and on the rewritten basis, and the outputs must be
related by the state's function list (index permutation, signs).
C11 additionally: symmetry / Hermiticity / eight-fold symmetry of the returned arrays, and shell blocks
computed in every orientation (pairs and quartets, including tight/diffuse ones) against each other.
C13 additionally: un-normalised blocks are linear in the coefficients.
"""
import itertools
import os

import numpy as np

from .. import cases as cg
from .. import layout, tlaparse, tlc
from . import common

INIT0 = {"C11": [{"K": 2, "M": 2}, {"K": 1, "M": 1}, {"K": 2, "M": 1}, {"K": 1, "M": 2}],
         "C13": [{"K": 2, "M": 2}, {"K": 3, "M": 1}]}


def run_rewrites(ctx, pid, depth, nshell=None, simulate=None, seed=0):
    d = tlc.scratch("rw")
    init0 = INIT0[pid][:nshell] if nshell else INIT0[pid]
    body = ("\nCONSTANTS MaxDepth\nVARIABLES basis, depth, last\nMCInit0 == %s\nINSTANCE Rewrites WITH Init0 <- MCInit0, "
            "GenShellPerm <- %s, GenContraction <- %s\n" % (tlc.tla_value(init0), "TRUE" if pid == "C11" else "FALSE",
                                                           "TRUE" if pid == "C13" else "FALSE"))
    tlc.write_module(d, "MC_RW", body, extends=("Integers", "Sequences"))
    cfg = "CONSTANT MaxDepth = %d\nSPECIFICATION Spec\nINVARIANT DenotationKept\nINVARIANT ListIsPermutation\n" % depth
    states = []
    if simulate:
        os.makedirs(os.path.join(d, "tr"))
        res = tlc.run(d, "MC_RW", cfg, workers=1, timeout=1800, simulate="file=%s,num=%d" % (os.path.join(d, "tr", "b"), simulate),
                      extra=["-depth", str(depth + 1), "-seed", str(seed + 7)])
        if not res.ok:
            ctx.spec_violation("Rewrites(simulate)", res)
        ctx.add_tlc("Rewrites -simulate (%s generators, %d behaviours of depth %d)" % (pid, simulate, depth), res)
        for f in sorted(os.listdir(os.path.join(d, "tr"))):
            tr = tlaparse.read_sim_trace(os.path.join(d, "tr", f))
            if tr:
                states.append(tr[-1][1])
    else:
        dump = os.path.join(d, "states")
        res = tlc.run(d, "MC_RW", cfg, workers=8, timeout=1800, extra=["-dump", dump])
        if not res.ok:
            ctx.spec_violation("Rewrites", res)
        ctx.add_tlc("Rewrites(%s generators, %d shells, depth<=%d): denotation kept, function list a permutation" % (
            pid, len(init0), depth), res)
        states = tlaparse.read_dump(dump + ".dump")
    tlc.cleanup(d)
    return init0, states


def base_shells(seed, pid, init0, variant=0):
    """Real parameters of the original shells (angular momentum, centre, type, exponents per primitive id)."""
    rng = cg.rng_for(seed, pid, "base", len(init0))
    out = []
    cens = [cg.center(rng, 1.5) for _ in range(2)]
    ls = rng.sample([0, 1, 2, 3], len(init0)) if len(init0) <= 4 else [rng.randint(0, 3) for _ in init0]
    twins = pid == "C11" and len(init0) in (2, 3)
    if twins:
        ls[0] = ls[1] = 2          # two d shells, one Cartesian and one pure (set below): same l, different coordinate types
    for k, s in enumerate(init0):
        exps = []
        while len(exps) < s["K"]:
            e = cg.val(cg.exponent(rng, 0.15, 8.0, 10))
            if e not in exps:
                exps.append(e)
        out.append({"l": ls[k], "center": [cg.val(x) for x in (rng.choice(cens) if rng.random() < 0.5 else cg.center(rng, 1.5))],
                    "type": rng.choice(["cartesian", "spherical"]), "exps": exps})
    if twins:
        out[0]["type"], out[1]["type"] = ("cartesian", "spherical") if rng.random() < 0.5 else ("spherical", "cartesian")
    if variant == 2:
        for o_ in out:                       # all s: the repulsion integrals of s quartets have a kernel of their own
            o_["l"] = 0
    if variant == 1:
        # the generalized shell (two or more columns) is pure and has angular momentum; the segmented one is Cartesian with l >= 1
        gen = max(range(len(init0)), key=lambda k_: init0[k_]["M"])
        out[gen]["type"], out[gen]["l"] = "spherical", max(1, min(out[gen]["l"], 2))
        for k_, o_ in enumerate(out):
            if k_ != gen:
                o_["type"], o_["l"] = "cartesian", max(1, min(o_["l"], 2))
    return out


def c0(k, p, m):
    return 2 * (3 * k + 5 * p + 7 * m) * (-1 if (k + p + m) % 3 == 0 else 1)


def build(gb, base, state_basis):
    """Shell objects of a Rewrites state."""
    S = gb.Shell()
    out = []
    for sh in state_basis:
        b = base[sh["orig"] - 1]
        exps = np.array([b["exps"][p - 1] for p in sh["prims"]])
        coeffs = np.array([[c["coef"][i] * c["sign"] * c["scale"][0] / c["scale"][1] / 16.0 for c in sh["cols"]]
                           for i in range(len(sh["prims"]))])
        out.append(S(b["l"], np.array(b["center"]), coeffs, exps, b["type"]))
    return out


def function_positions(shells):
    """[(shell index, column)] -> slice of basis-function positions."""
    pos = {}
    o = 0
    for k, s in enumerate(shells):
        n = s.num_cart if s.coord_type == "cartesian" else s.num_sph
        for m in range(s.num_seg_cont):
            pos[(k, m)] = list(range(o, o + n))
            o += n
    return pos, o


def public(gb, eri):
    from .c09 import public_calls
    return public_calls(gb, eri)


def replay_state(arg):
    from .. import gb
    pid, seed, init0, st, eri = arg[:5]
    variant = arg[5] if len(arg) > 5 else 0
    base = base_shells(seed, pid, init0, variant)
    start = [{"orig": k + 1, "prims": list(range(1, s["K"] + 1)),
              "cols": [{"ocol": m + 1, "sign": 1, "scale": [1, 1], "coef": [c0(k + 1, p + 1, m + 1) for p in range(s["K"])]}
                       for m in range(s["M"])]} for k, s in enumerate(init0)]
    ref = build(gb, base, start)
    cur = build(gb, base, st["basis"])
    pref, nref = function_positions(ref)
    pcur, ncur = function_positions(cur)
    res = {"violations": [], "dev": 0.0, "n": 0, "last": st.get("last")}
    if nref != ncur:
        res["violations"].append("the rewritten basis has %d functions, the original %d" % (ncur, nref))
        return res
    idx = np.zeros(ncur, dtype=int)
    sgn = np.ones(ncur)
    for k, sh in enumerate(st["basis"]):
        for m, c in enumerate(sh["cols"]):
            src = pref[(sh["orig"] - 1, c["ocol"] - 1)]
            for a, b in zip(pcur[(k, m)], src):
                idx[a] = b
                sgn[a] = c["sign"]
    for name, (f, nb) in public(gb, eri).items():
        if eri != name.startswith("electron") and eri:
            continue
        a = f(ref, None)
        b = f(cur, None)
        if a.shape[:nb] != (nref,) * nb:
            res["violations"].append("%s: the array of the original basis has shape %s, the basis has %d functions" % (name, a.shape, nref))
            continue
        want = a
        for ax in range(nb):
            want = np.take(want, idx, axis=ax)
            shp = [1] * want.ndim
            shp[ax] = ncur
            want = want * sgn.reshape(shp)
        res["n"] += 1
        if b.shape != want.shape:
            res["violations"].append("%s: shape %s after the rewrite, %s expected" % (name, b.shape, want.shape))
            continue
        dev = float(common.above_noise(np.abs(b - want).max()) / (np.abs(want).max() + 1e-300))
        res["dev"] = max(res["dev"], dev)
        if not dev <= (1e-6 if name.startswith("electron") else 1e-8):
            res["violations"].append("%s changes under a rewrite that keeps the functions (last step %s): max relative deviation %.3g"
                                     % (name, st.get("last"), dev))
    if not eri:
        # quantities contracted with a density matrix: the matrix of the rewritten basis is the original one with its indices
        # permuted (and signed) the same way.  The matrix is symmetric only up to the noise the library's own np.allclose
        # test accepts (triangles differing in the sixth digit): the result may not depend on which triangle an implementation reads.
        rngp = cg.rng_for(seed, pid, "dm", nref)
        A = np.array([[rngp.uniform(-1, 1) for _ in range(nref)] for _ in range(nref)])
        S0 = A @ A.T
        P = S0 * (1.0 + 4e-6 * (np.triu(np.ones((nref, nref)), 1) - np.tril(np.ones((nref, nref)), -1)))   # |P - P^T| = 8e-6 |P|
        Pc = P[np.ix_(idx, idx)] * sgn[:, None] * sgn[None, :]
        pts = np.array([[0.1, -0.2, 0.3], [1.0, 0.5, -0.7], [0.0, 0.0, 0.0], [-0.6, 0.9, 0.2]])
        nuc = np.array([[0.4, 0.1, -0.3], [-0.9, 0.6, 0.5]])
        chg = np.array([1.0, 3.0])
        m = gb.mod
        Dm = m("gbasis.evals.density")
        St = m("gbasis.evals.stress_tensor")
        dcalls = {
            "evaluate_density": lambda p_, b_: Dm.evaluate_density(p_, b_, pts),
            "evaluate_density_gradient": lambda p_, b_: Dm.evaluate_density_gradient(p_, b_, pts),
            "evaluate_density_laplacian": lambda p_, b_: Dm.evaluate_density_laplacian(p_, b_, pts),
            "evaluate_posdef_kinetic_energy_density": lambda p_, b_: Dm.evaluate_posdef_kinetic_energy_density(p_, b_, pts),
            "evaluate_stress_tensor": lambda p_, b_: St.evaluate_stress_tensor(p_, b_, pts, alpha=0.3, beta=0.6),
            "electrostatic_potential": lambda p_, b_: m("gbasis.evals.electrostatic_potential").electrostatic_potential(b_, p_, pts, nuc, chg),
        }
        for name, f in dcalls.items():
            a = f(P, ref)
            b = f(Pc, cur)
            res["n"] += 1
            dev = float(common.above_noise(np.abs(b - a).max()) / (np.abs(a).max() + 1e-300)) if a.shape == b.shape else float("inf")
            res["dev"] = max(res["dev"], dev if np.isfinite(dev) else 0.0)
            if not dev <= 1e-9:
                res["violations"].append("%s (density matrix symmetric to a relative 8e-6) changes under a rewrite that keeps the functions (last step %s): "
                                         "max relative deviation %.3g" % (name, st.get("last"), dev))
    return res


# ------------------------------------------------------------------------------------------ C11 extras
def replay_symmetry(arg):
    """Returned arrays symmetric / Hermitian / eight-fold symmetric; shell blocks in every orientation."""
    from .. import gb
    seed, n = arg
    rng = cg.rng_for(seed, "C11sym", n)
    res = {"violations": [], "dev": 0.0, "n": 0}
    nsh = rng.randint(2, 3)
    tight = n % 3 == 0
    basis = []
    for k in range(nsh):
        if tight and k == 0 and n % 2:
            basis.append(cg.shell(rng, 0, K=2, M=1, lo=5.0e3, hi=1.0e5))
        elif tight and k == 1 and n % 2:
            basis.append(cg.shell(rng, rng.choice([2, 3]), K=1, M=1, lo=0.1, hi=0.3))
        elif tight and k == 0:
            # a tight shell whose primitives are listed in ASCENDING order of the exponent, a diffuse one first
            sh_ = cg.shell(rng, 2 if n % 6 == 0 else rng.choice([1, 2]), K=3, M=1, lo=0.2, hi=6.0)
            sh_["exps"] = [cg.exponent(rng, 0.4, 0.8, 24), cg.exponent(rng, 15.0, 30.0, 24), cg.exponent(rng, 300.0, 500.0, 24)]
            basis.append(sh_)
        elif tight and k == 1:
            sh_ = cg.shell(rng, 2 if n % 6 == 0 else rng.choice([1, 2]), K=2, M=1, lo=0.2, hi=6.0)
            sh_["exps"] = [cg.exponent(rng, 0.9, 1.3, 24), cg.exponent(rng, 0.04, 0.08, 24)]
            basis.append(sh_)
        else:
            basis.append(cg.shell(rng, rng.randint(0, 2), K=rng.randint(1, 2), M=rng.randint(1, 2), lo=0.2, hi=6.0))
    # the three dispatch paths (all-Cartesian, all-spherical, mixed) fill the copied blocks in separate code
    variant = ["as drawn", "cartesian", "spherical"][n % 3]
    if variant != "as drawn":
        basis = [dict(s, type=variant) for s in basis]
    shells = gb.make_basis(basis)
    m = gb.mod
    pts = np.array([[0.3, -0.2, 0.1], [1.0, 0.4, -0.8]])
    chg = np.array([1.0, -2.0])

    def chk(name, a, b, tol=1e-10, scale=None):
        res["n"] += 1
        sc = (np.abs(a).max() if scale is None else scale) + 1e-300
        dev = float(common.above_noise(np.abs(a - b).max()) / sc) if a.shape == b.shape else float("inf")
        res["dev"] = max(res["dev"], dev if np.isfinite(dev) else 0)
        if not dev <= tol:
            res["violations"].append("%s: max relative deviation %.3g" % (name, dev))

    for name, f in (("overlap_integral", lambda: m("gbasis.integrals.overlap").overlap_integral(shells)),
                    ("kinetic_energy_integral", lambda: m("gbasis.integrals.kinetic_energy").kinetic_energy_integral(shells)),
                    ("moment_integral", lambda: m("gbasis.integrals.moment").moment_integral(shells, np.array([0.1, 0.2, -0.3]), np.array([[1, 0, 2], [0, 1, 1]]))),
                    ("point_charge_integral", lambda: m("gbasis.integrals.point_charge").point_charge_integral(shells, pts, chg))):
        a = f()
        chk(name + " symmetric", a, np.swapaxes(a, 0, 1))
    for name, f in (("momentum_integral", lambda: m("gbasis.integrals.momentum").momentum_integral(shells)),
                    ("angular_momentum_integral", lambda: m("gbasis.integrals.angular_momentum").angular_momentum_integral(shells))):
        a = f()
        chk(name + " Hermitian", a, np.conj(np.swapaxes(a, 0, 1)))
    er = m("gbasis.integrals.electron_repulsion").electron_repulsion_integral(shells, notation="chemist")
    dg = np.sqrt(np.abs(np.einsum("abab->ab", er)))
    for perm in ((1, 0, 2, 3), (0, 1, 3, 2), (2, 3, 0, 1)):
        res["n"] += 1
        dev = np.abs(er - np.transpose(er, perm)) / (dg[:, :, None, None] * dg[None, None, :, :] + 1e-300)
        if not dev.max() <= 1e-6:
            res["violations"].append("electron_repulsion_integral lacks the index symmetry %s (%.3g of the Schwarz scale)" % (perm, dev.max()))
    # screened overlap under every listing order: compact and diffuse shells 4..16 bohr apart, so that some blocks lie
    # beyond the cut-off and some between the cut-offs a one-sided rule would give
    sc_basis = []
    zpos = 0.0
    for k in range(3):
        zpos += rng.uniform(4.0, 8.0) if k else 0.0
        lo, hi = [(2.0, 8.0), (0.05, 0.2), (0.3, 1.0)][(k + n) % 3]
        sc_basis.append(cg.shell(rng, rng.randint(0, 2), K=rng.randint(1, 2), M=rng.randint(1, 2), lo=lo, hi=hi,
                                 cen=[cg.dyadic(rng.uniform(-1, 1), 10), cg.dyadic(rng.uniform(-1, 1), 10), cg.dyadic(zpos, 10)]))
    sc_shells = gb.make_basis(sc_basis)
    sizes = [layout.size(s_) for s_ in sc_basis]
    offs = np.concatenate([[0], np.cumsum(sizes)])
    ovf = m("gbasis.integrals.overlap").overlap_integral
    for tol in (1e-8, 1e-4):
        ref = ovf(sc_shells, tol_screen=tol)
        for perm in itertools.permutations(range(3)):
            got = ovf([sc_shells[p_] for p_ in perm], tol_screen=tol)
            idx = np.concatenate([np.arange(offs[p_], offs[p_ + 1]) for p_ in perm])
            chk("overlap_integral(tol_screen=%g) with the shells listed in the order %s" % (tol, perm), got, ref[np.ix_(idx, idx)], tol=1e-12, scale=1.0)
    # shell blocks in every orientation
    PC = m("gbasis.integrals.point_charge").PointChargeIntegral
    OV = m("gbasis.integrals.overlap").Overlap
    KE = m("gbasis.integrals.kinetic_energy").KineticEnergyIntegral
    MO = m("gbasis.integrals.momentum").MomentumIntegral
    AM = m("gbasis.integrals.angular_momentum").AngularMomentumIntegral
    ER = m("gbasis.integrals.electron_repulsion").ElectronRepulsionIntegral
    for i, j in itertools.combinations(range(nsh), 2):
        s1, s2 = shells[i], shells[j]
        n12 = s1.norm_cont[:, :, None, None] * s2.norm_cont[None, None, :, :]
        for name, cls, herm, kw in (("Overlap", OV, False, {}), ("KineticEnergyIntegral", KE, False, {}),
                                    ("MomentumIntegral", MO, True, {}), ("AngularMomentumIntegral", AM, True, {}),
                                    ("PointChargeIntegral", PC, False, {"points_coords": pts, "points_charge": chg})):
            a = cls.construct_array_contraction(s1, s2, **kw)
            b = cls.construct_array_contraction(s2, s1, **kw)
            bt = np.swapaxes(np.swapaxes(b, 0, 2), 1, 3)
            if herm:
                bt = np.conj(bt)
            nn = n12.reshape(n12.shape + (1,) * (a.ndim - 4))
            chk("%s.construct_array_contraction(s%d, s%d) vs the transposed (s%d, s%d)" % (name, i, j, j, i), a * nn, bt * nn,
                tol=1e-8, scale=max(np.abs(a * nn).max(), 1e-3 if name == "Overlap" else 0))
    quartets = [(0, 1, 0, 1), (0, 0, 1, 1), (0, 1, 1, 1)] if nsh == 2 else [(0, 1, 2, 1), (0, 0, 1, 2), (2, 1, 0, 0)]
    for q in quartets:
        ss = [shells[k] for k in q]
        a = ER.construct_array_contraction(*ss)
        nrm = 1.0
        for t, s in enumerate(ss):
            shp = [1] * 8
            shp[2 * t], shp[2 * t + 1] = s.norm_cont.shape
            nrm = nrm * s.norm_cont.reshape(shp)
        a = a * nrm
        dab = ER.construct_array_contraction(ss[0], ss[1], ss[0], ss[1])
        dcd = ER.construct_array_contraction(ss[2], ss[3], ss[2], ss[3])
        n01 = ss[0].norm_cont[:, :, None, None] * ss[1].norm_cont[None, None, :, :]
        n23 = ss[2].norm_cont[:, :, None, None] * ss[3].norm_cont[None, None, :, :]
        sab = np.sqrt(np.abs(np.einsum("manbmanb->manb", dab))) * n01
        scd = np.sqrt(np.abs(np.einsum("manbmanb->manb", dcd))) * n23
        scale = sab[:, :, :, :, None, None, None, None] * scd[None, None, None, None, :, :, :, :]
        for perm, name in (((1, 0, 2, 3), "(ba|cd)"), ((0, 1, 3, 2), "(ab|dc)"), ((2, 3, 0, 1), "(cd|ab)"), ((3, 2, 1, 0), "(dc|ba)")):
            b = ER.construct_array_contraction(*[ss[p] for p in perm])
            nrm2 = 1.0
            for t, p in enumerate(perm):
                shp = [1] * 8
                shp[2 * t], shp[2 * t + 1] = ss[p].norm_cont.shape
                nrm2 = nrm2 * ss[p].norm_cont.reshape(shp)
            b = b * nrm2
            inv = [perm.index(t) for t in range(4)]
            axes = [x for t in inv for x in (2 * t, 2 * t + 1)]
            bt = np.transpose(b, axes)
            res["n"] += 1
            dev = np.abs(a - bt) / (scale + 1e-300)
            res["dev"] = max(res["dev"], float(dev.max()))
            if not dev.max() <= 2e-6:
                res["violations"].append("ElectronRepulsionIntegral.construct_array_contraction for shells %s and the orientation %s disagree by %.3g "
                                         "of the Schwarz scale (angular momenta %s, exponents %s)" % (q, name, dev.max(), [s.angmom for s in ss],
                                                                                                    [s.exps.round(3).tolist() for s in ss]))
    return res


def replay_linear(arg):
    """C13: un-normalised shell blocks are linear in the coefficients."""
    from .. import gb
    seed, n = arg
    rng = cg.rng_for(seed, "C13lin", n)
    S = gb.Shell()
    l1, l2 = rng.randint(0, 3), rng.randint(0, 3)
    K = rng.randint(1, 3)
    ex = np.array([rng.uniform(0.2, 5) for _ in range(K)])
    cA = np.array([[rng.uniform(-1, 1)] for _ in range(K)])
    cB = np.array([[rng.uniform(-1, 1)] for _ in range(K)])
    lam, mu = rng.uniform(-2, 2), rng.uniform(-2, 2)
    cen = np.array([rng.uniform(-1, 1) for _ in range(3)])
    other = S(l2, np.array([rng.uniform(-1, 1) for _ in range(3)]), np.array([[0.7], [0.4]]), np.array([1.3, 0.35]), "cartesian")
    sA, sB, sC = (S(l1, cen, c, ex, "cartesian") for c in (cA, cB, lam * cA + mu * cB))
    pts = np.array([[0.3, -0.2, 0.1]])
    m = gb.mod
    res = {"violations": [], "dev": 0.0, "n": 0}
    blocks = {
        "Overlap": lambda s: m("gbasis.integrals.overlap").Overlap.construct_array_contraction(s, other),
        "KineticEnergyIntegral": lambda s: m("gbasis.integrals.kinetic_energy").KineticEnergyIntegral.construct_array_contraction(other, s),
        "MomentumIntegral": lambda s: m("gbasis.integrals.momentum").MomentumIntegral.construct_array_contraction(s, other),
        "AngularMomentumIntegral": lambda s: m("gbasis.integrals.angular_momentum").AngularMomentumIntegral.construct_array_contraction(other, s),
        "Moment": lambda s: m("gbasis.integrals.moment").Moment.construct_array_contraction(s, other, np.array([0.2, 0.1, 0.0]), np.array([[1, 1, 0]])),
        "PointChargeIntegral": lambda s: m("gbasis.integrals.point_charge").PointChargeIntegral.construct_array_contraction(s, other, pts, np.array([1.0])),
        "ElectronRepulsionIntegral": lambda s: m("gbasis.integrals.electron_repulsion").ElectronRepulsionIntegral.construct_array_contraction(other, s, other, other),
        "Eval": lambda s: m("gbasis.evals.eval").Eval.construct_array_contraction(s, pts),
        "EvalDeriv": lambda s: m("gbasis.evals.eval_deriv").EvalDeriv.construct_array_contraction(s, pts, np.array([1, 0, 1])),
    }
    for name, f in blocks.items():
        a, b, c = f(sA), f(sB), f(sC)
        want = lam * a + mu * b
        res["n"] += 1
        dev = float(common.above_noise(np.abs(c - want).max()) / (np.abs(a).max() + np.abs(b).max() + 1e-300))
        res["dev"] = max(res["dev"], dev)
        if not dev <= 1e-9:
            res["violations"].append("%s.construct_array_contraction is not linear in the contraction coefficients (l=%d, %d primitives): %.3g"
                                     % (name, l1, K, dev))
    return res


def run(pid, tier, seed, only_case=None):
    ctx = common.Ctx(pid, tier, seed)
    ctx.write_evidence = ctx.write_evidence and only_case is None
    quick = tier == "quick"
    if only_case is not None:
        if only_case["kind"] == "state":
            r = replay_state((pid, only_case["seed"], only_case["init0"], only_case["state"], only_case["eri"], only_case.get("variant", 0)))
        elif only_case["kind"] == "symmetry":
            r = replay_symmetry((only_case["seed"], only_case["n"]))
        else:
            r = replay_linear((only_case["seed"], only_case["n"]))
        for v in r["violations"]:
            ctx.violation({"function": v.split(":")[0].split(" ")[0]}, v, {"module": "meta", "case": only_case})
        ctx.replayed = 1
        return ctx.finish()
    jobs = []
    if pid == "C11":
        init0, st4 = run_rewrites(ctx, pid, 6 if not quick else 3, nshell=4)          # all 24 orders of 4 shells need <= 3 transpositions
        _, st3 = run_rewrites(ctx, pid, 2, nshell=3)
        _, st2 = run_rewrites(ctx, pid, 1, nshell=2)
        sets = [(INIT0[pid][:4], st4), (INIT0[pid][:3], st3), (INIT0[pid][:2], st2)]
    else:
        init0, sa = run_rewrites(ctx, pid, 2 if quick else 3)
        _, sb = run_rewrites(ctx, pid, 4 if quick else 6, simulate=60 if quick else 600, seed=seed)
        sets = [(init0, sa), (init0, sb)]
    cases = []
    seen = set()
    seen_kinds = set()
    for init0, states in sets:
        for st in states:
            key = (len(init0), repr(st["basis"]))
            if key in seen or st.get("depth") == 0:
                continue
            seen.add(key)
            if quick and pid == "C13" and st.get("depth", 0) >= 2 and (len(seen) + seed) % 3:
                continue                      # quick: every depth-1 state, a third of the deeper ones
            if not quick and pid == "C13" and st.get("depth", 0) >= 3 and (len(seen) + seed) % 8:
                continue                      # thorough: TLC checks every depth-3 state, an eighth of them is replayed
            # the four-index array: every 12th state (thorough: every other one), the first state produced by each kind of
            # rewrite, and never a state with more than three primitives in a shell (the repulsion kernel needs memory ~ K^4:
            # a thorough run with five-primitive f shells was killed by the system at 7.5 GB per worker)
            kind_ = (len(init0), tuple(st.get("last", ("?",))[:1]))
            small = all(len(sh_["prims"]) <= 3 for sh_ in st["basis"])
            eri = (len(cases) % (12 if quick else 2) == 0 or pid == "C11" or kind_ not in seen_kinds) and len(init0) <= 2 and small
            if eri:
                seen_kinds.add(kind_)
            cases.append((pid, seed, init0, st, eri, 0))
            if eri and pid == "C13":
                cases.append((pid, seed, init0, st, eri, 1))     # the same state on the second and third set of base shells
                cases.append((pid, seed, init0, st, eri, 2))
    out = common.pmap(replay_state, cases)
    for c, r in zip(cases, out):
        cc = {"kind": "state", "seed": seed, "init0": c[2], "state": c[3], "eri": c[4], "variant": c[5]}
        if common.impl_failure(ctx, r, cc, "meta", pid):
            continue
        ctx.replayed += 1
        ctx.evaluations += r["n"] - 1
        ctx.case_done((pid, repr(c[3]["basis"]), c[5]))
        ctx.note_dev("relative deviation from the output law", r["dev"])
        for v in r["violations"]:
            ctx.violation({"function": v.split(" ")[0].split(":")[0]}, v, {"module": "meta", "case": cc})
    extra = [(seed, n) for n in range(18 if quick else 96)]
    fn, kind = (replay_symmetry, "symmetry") if pid == "C11" else (replay_linear, "linear")
    for a, r in zip(extra, common.pmap(fn, extra)):
        cc = {"kind": kind, "seed": a[0], "n": a[1]}
        if common.impl_failure(ctx, r, cc, "meta", pid):
            continue
        ctx.replayed += 1
        ctx.evaluations += r["n"] - 1
        ctx.case_done((pid, kind, a[1]))
        ctx.note_dev("orientation / symmetry / linearity", r["dev"])
        for v in r["violations"]:
            ctx.violation({"function": v.split(" ")[0].split(":")[0].split(".")[0]}, "%s case %d: %s" % (kind, a[1], v), {"module": "meta", "case": cc})
    ctx.extra["states_replayed"] = len(cases)
    ctx.extra["exhaustive"] = pid == "C11"
    if pid == "C11":
        ctx.extra["exhaustive_note"] = "every ordering of 2, 3 and 4 shells (reachable by transpositions) is replayed; orientation checks are sampled"
    ctx.rule = ("every reachable state of Rewrites.tla within the depth bound is one case (original basis vs rewritten basis through 10-12 "
                "public functions); plus seeded symmetry/orientation (C11) or linearity (C13) cases; distinct by rewritten basis")
    ctx.samples = [{"last": cases[0][3].get("last"), "basis": cases[0][3]["basis"]}] if cases else []
    ctx.assumptions = ["code-versus-code: the oracle is the output law of the rewrite (index permutation and signs) from Rewrites.tla"]
    return ctx.finish()
