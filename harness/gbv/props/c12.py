"""C12 -- results are covariant under rigid motions of the whole system.

TLC (Frames.tla): the 48 signed axis permutations form a group; the law on Cartesian components (index
permutation with signs) is a homomorphism for l <= 4; the component maps are emitted.
Replay: for every one of the 48 elements (plus a translation) a seeded system -- basis (l 0..4, generalized,
both coordinate types), points, point charges, density matrix, moment origin -- is evaluated by every public
function before and after the motion; the outputs must be related by the representation matrices of the shells
on every basis index (signed permutation for Cartesian shells, T P T^+ for spherical ones), the vector / tensor /
pseudo-vector law on component axes, permuted derivative and moment orders, and the d x p shift of the angular
momentum.  Thorough tier: random proper and improper rotations with the Cartesian representation built from
the rotation matrix.
"""
import itertools
import os

import numpy as np

from .. import cases as cg
from .. import exact, layout, tlaparse, tlc
from . import common

LMAX = 4


def run_frames(ctx):
    d = tlc.scratch("frm")
    tlc.write_module(d, "MC_Fr", "\nCONSTANT LMax\nVARIABLES g, h, maps\nINSTANCE Frames\n", extends=())
    dump = os.path.join(d, "states")
    res = tlc.run(d, "MC_Fr", "CONSTANT LMax = %d\nSPECIFICATION Spec\nINVARIANT Closed\nINVARIANT Homomorphism\nINVARIANT IdentityLaw\n"
                  "INVARIANT Bijective\nINVARIANT GroupSize\n" % LMAX, workers=8, timeout=1800, extra=["-dump", dump])
    if not res.ok:
        ctx.spec_violation("Frames", res)
    ctx.add_tlc("Frames(l<=%d): the 48 signed axis permutations are a group; the Cartesian component law is a homomorphism" % LMAX, res)
    states = tlaparse.read_dump(dump + ".dump")
    tlc.cleanup(d)
    out = {}
    for s in states:
        key = (tuple(s["g"][0]), tuple(s["g"][1]))
        if key not in out:
            out[key] = s["maps"]
    if len(out) != 48:
        raise tlc.MachineryError("Frames produced %d group elements" % len(out))
    return out


def comp_map(perm, sgn, l):
    """Python image of Frames!CompMap (0-based positions)."""
    comps = exact.cart_components(l)
    out = []
    for a in comps:
        b = [0, 0, 0]
        s = 1
        for k in range(3):
            b[perm[k] - 1] = a[k]
            if a[k] % 2:
                s *= sgn[k]
        out.append((comps.index(tuple(b)), s))
    return out


def gmat(perm, sgn):
    G = np.zeros((3, 3))
    for k in range(3):
        G[k, perm[k] - 1] = sgn[k]
    return G


def cart_rep_general(R, l):
    """Representation of an orthogonal R on unit-normalised Cartesian functions of degree l:
    phi'_a(R r) = sum_b C[a, b] phi_b(r), from the expansion of prod_k (sum_j R[k, j] x_j)^a_k."""
    comps = exact.cart_components(l)
    idx = {c: i for i, c in enumerate(comps)}
    C = np.zeros((len(comps), len(comps)))
    for ia, a in enumerate(comps):
        poly = {(0, 0, 0): 1.0}
        for k in range(3):
            for _ in range(a[k]):
                new = {}
                for mono, c in poly.items():
                    for j in range(3):
                        m2 = list(mono)
                        m2[j] += 1
                        new[tuple(m2)] = new.get(tuple(m2), 0.0) + c * R[k, j]
                poly = new
        na = np.sqrt(exact.dfm1(2 * a[0]) * exact.dfm1(2 * a[1]) * exact.dfm1(2 * a[2]))
        for b, c in poly.items():
            nb = np.sqrt(exact.dfm1(2 * b[0]) * exact.dfm1(2 * b[1]) * exact.dfm1(2 * b[2]))
            C[ia, idx[b]] += c * nb / na
    return C


def cart_metric(l):
    comps = exact.cart_components(l)
    G = np.zeros((len(comps), len(comps)))
    for i, a in enumerate(comps):
        for j, b in enumerate(comps):
            if all((x + y) % 2 == 0 for x, y in zip(a, b)):
                num = np.prod([exact.dfm1(x + y) for x, y in zip(a, b)])
                G[i, j] = num / np.sqrt(np.prod([exact.dfm1(2 * x) for x in a]) * np.prod([exact.dfm1(2 * y) for y in b]))
    return G


def shell_rep(sh, C):
    """Block of the representation matrix for one shell (all its segments)."""
    if sh["type"] == "cartesian":
        blk = C
    else:
        T = exact.transform_float(sh["l"])
        blk = T @ C @ cart_metric(sh["l"]) @ T.T
    M = layout.nseg(sh)
    return np.kron(np.eye(M), blk)


def rep_matrix(basis, cfun):
    n = sum(layout.size(s) for s in basis)
    R = np.zeros((n, n))
    o = 0
    for s in basis:
        b = shell_rep(s, cfun(s["l"]))
        R[o:o + b.shape[0], o:o + b.shape[0]] = b
        o += b.shape[0]
    return R


def replay_case(case):
    from .. import gb
    rng = cg.rng_for(case["seed"], "C12", case["id"])
    quick = case["quick"]
    if case["kind"] == "axis":
        perm, sgn = case["perm"], case["sgn"]
        G = gmat(perm, sgn)
        maps = {l: comp_map(perm, sgn, l) for l in range(LMAX + 1)}
        if case.get("maps") is not None:
            for l in range(LMAX + 1):
                if [[m[0] + 1, m[1]] for m in maps[l]] != case["maps"][l]:
                    return {"id": case["id"], "violations": [], "machinery": "component map differs from Frames!CompMap for l=%d" % l}

        def cfun(l):
            C = np.zeros((layout.ncart(l),) * 2)
            for c, (c0, s) in enumerate(maps[l]):
                C[c, c0] = s
            return C
    else:
        A = np.array([[rng.gauss(0, 1) for _ in range(3)] for _ in range(3)])
        Q, _ = np.linalg.qr(A)
        if case["kind"] == "improper" and np.linalg.det(Q) > 0 or case["kind"] == "proper" and np.linalg.det(Q) < 0:
            Q[0] *= -1
        G = Q
        cfun = lambda l: cart_rep_general(G, l)  # noqa: E731
    det = round(float(np.linalg.det(G)))
    shift = np.array([cg.val(cg.dyadic(rng.uniform(-3, 3), 10)) for _ in range(3)]) if case["translate"] else np.zeros(3)
    if case["translate"] and case["id"] % 2:
        shift = np.array([cg.val(x) for x in cg.far_origin(rng)])      # a translation by tens of bohr
    nsh = rng.randint(2, 3)
    cens = [cg.center(rng, 1.5) for _ in range(3)]
    lmax = 2 if case["eri"] else 4
    basis = [cg.shell(rng, rng.randint(0, lmax) if k else rng.randint(1, lmax), K=rng.randint(1, 2), M=rng.randint(1, 2), lo=0.2, hi=6.0,
                      cen=rng.choice(cens) if rng.random() < 0.6 else None) for k in range(nsh)]
    move = lambda x: (G @ np.asarray(x, dtype=float).T).T + shift  # noqa: E731
    moved = []
    for s in basis:
        c = move(np.array([cg.val(x) for x in s["center"]]))
        moved.append(dict(s, center_f=c))
    shells = gb.make_basis(basis)
    shells2 = gb.make_basis(basis)
    for s2, m in zip(shells2, moved):
        s2.coord = m["center_f"]
    R = rep_matrix(basis, cfun)
    n = R.shape[0]
    pts = np.array([[rng.uniform(-2, 2) for _ in range(3)] for _ in range(4)])
    chg_pos = np.array([[rng.uniform(-2, 2) for _ in range(3)] for _ in range(2)] + [[cg.val(x) for x in basis[0]["center"]]])
    chg = np.array([1.5, -0.75, 2.0])
    org = np.array([rng.uniform(-1, 1) for _ in range(3)])
    A = np.array([[rng.uniform(-1, 1) for _ in range(n)] for _ in range(n)])
    P = A @ A.T
    Ri = np.linalg.inv(R)       # phi' = R phi, so the density matrix transforms contragrediently (R is orthogonal only
    P2 = Ri.T @ P @ Ri          # for axis permutations; Cartesian d, f, ... functions are not orthonormal)
    res = {"id": case["id"], "violations": [], "dev": 0.0, "n": 0}
    m = gb.mod

    def cmp(name, got, want, scale=None):
        res["n"] += 1
        if got.shape != want.shape:
            res["violations"].append("%s: shapes %s / %s" % (name, got.shape, want.shape))
            return
        sc = (max(np.abs(want).max(), np.abs(got).max()) if scale is None else scale) + 1e-300
        # an array that vanishes by symmetry (all shells on one centre with equal parity, ...) holds rounding noise only:
        # differences below 1e-12 absolute are not judged
        dev = float(max(np.abs(got - want).max() - 1e-12, 0.0) / sc)
        res["dev"] = max(res["dev"], dev)
        if not dev <= 1e-8:
            res["violations"].append("%s is not covariant under the motion %s%s: max relative deviation %.3g"
                                     % (name, np.array2string(G, precision=3).replace("\n", ""), " + translation" if case["translate"] else "", dev))

    def two(a):
        return np.einsum("ia,jb,ab...->ij...", R, R, a)

    mi = m("gbasis.integrals.moment").moment_integral
    ov = m("gbasis.integrals.overlap").overlap_integral
    cmp("overlap_integral", ov(shells2), two(ov(shells)))
    ke = m("gbasis.integrals.kinetic_energy").kinetic_energy_integral
    cmp("kinetic_energy_integral", ke(shells2), two(ke(shells)))
    pc = m("gbasis.integrals.point_charge").point_charge_integral
    cmp("point_charge_integral", pc(shells2, move(chg_pos), chg), two(pc(shells, chg_pos, chg)))
    na = m("gbasis.integrals.nuclear_electron_attraction").nuclear_electron_attraction_integral
    cmp("nuclear_electron_attraction_integral", na(shells2, move(chg_pos), chg), two(na(shells, chg_pos, chg)))
    mom = m("gbasis.integrals.momentum").momentum_integral
    p1 = two(mom(shells))
    p2 = mom(shells2)
    cmp("momentum_integral (vector law)", p2, np.einsum("kj,abj->abk", G, p1))
    am = m("gbasis.integrals.angular_momentum").angular_momentum_integral
    L1 = two(am(shells))
    want = det * np.einsum("kj,abj->abk", G, L1)
    if case["translate"]:
        want = want + np.cross(shift[None, None, :], np.einsum("kj,abj->abk", G, p1))
    cmp("angular_momentum_integral (pseudo-vector law%s)" % (" with the d x p shift" if case["translate"] else ""), am(shells2), want,
        scale=np.abs(want).max() + np.abs(p1).max() * np.abs(shift).max())
    if case["kind"] == "axis":
        ords2 = np.array([[2, 0, 1], [0, 1, 0], [1, 1, 2], [0, 0, 0], [3, 0, 0]])
        # order along new axis k = order along old axis perm[k]
        ords1 = np.array([[o[list(perm).index(j + 1)] for j in range(3)] for o in ords2])
        sg = np.array([np.prod([sgn[k] ** o[k] for k in range(3)]) for o in ords2])
        cmp("moment_integral (orders permuted with the axes)", mi(shells2, move(org), ords2), two(mi(shells, org, ords1)) * sg[None, None, :])
        ed = m("gbasis.evals.eval_deriv").evaluate_deriv_basis
        for o2 in ([1, 0, 2], [0, 3, 1], [2, 2, 0]):
            o1 = np.array([o2[list(perm).index(j + 1)] for j in range(3)])
            s = np.prod([sgn[k] ** o2[k] for k in range(3)])
            for dt in ("general", "direct") if max(o2) <= 2 else ("general",):
                cmp("evaluate_deriv_basis(%s, %s)" % (o2, dt), ed(shells2, move(pts), np.array(o2), deriv_type=dt), s * (R @ ed(shells, pts, o1, deriv_type=dt)))
    # first and second moments about the (moved) origin: vector and tensor laws -- for ANY orthogonal motion
    o1 = np.array([[1, 0, 0], [0, 1, 0], [0, 0, 1]])
    o2 = np.array([[2, 0, 0], [1, 1, 0], [1, 0, 1], [0, 2, 0], [0, 1, 1], [0, 0, 2]])
    tix = [(0, 0), (0, 1), (0, 2), (1, 1), (1, 2), (2, 2)]

    def tens(a):
        t = np.zeros(a.shape[:2] + (3, 3))
        for n, (i, j) in enumerate(tix):
            t[:, :, i, j] = a[:, :, n]
            t[:, :, j, i] = a[:, :, n]
        return t
    cmp("moment_integral, first moments (vector law)", mi(shells2, move(org), o1), np.einsum("kj,abj->abk", G, two(mi(shells, org, o1))))
    cmp("moment_integral, second moments (tensor law)", tens(mi(shells2, move(org), o2)),
        np.einsum("ki,lj,abij->abkl", G, G, tens(two(mi(shells, org, o2)))))
    ev = m("gbasis.evals.eval").evaluate_basis
    cmp("evaluate_basis at the moved points", ev(shells2, move(pts)), R @ ev(shells, pts))
    D = m("gbasis.evals.density")
    cmp("evaluate_density", D.evaluate_density(P2, shells2, move(pts)), D.evaluate_density(P, shells, pts))
    cmp("evaluate_density_gradient (vector law)", D.evaluate_density_gradient(P2, shells2, move(pts)), D.evaluate_density_gradient(P, shells, pts) @ G.T)
    cmp("evaluate_density_laplacian", D.evaluate_density_laplacian(P2, shells2, move(pts)), D.evaluate_density_laplacian(P, shells, pts))
    cmp("evaluate_density_hessian (tensor law)", D.evaluate_density_hessian(P2, shells2, move(pts)),
        np.einsum("ki,lj,pij->pkl", G, G, D.evaluate_density_hessian(P, shells, pts)))
    cmp("evaluate_posdef_kinetic_energy_density", D.evaluate_posdef_kinetic_energy_density(P2, shells2, move(pts)),
        D.evaluate_posdef_kinetic_energy_density(P, shells, pts))
    ST = m("gbasis.evals.stress_tensor")
    cmp("evaluate_stress_tensor (tensor law)", ST.evaluate_stress_tensor(P2, shells2, move(pts), alpha=0.3, beta=0.7),
        np.einsum("ki,lj,pij->pkl", G, G, ST.evaluate_stress_tensor(P, shells, pts, alpha=0.3, beta=0.7)))
    cmp("evaluate_ehrenfest_force (vector law)", ST.evaluate_ehrenfest_force(P2, shells2, move(pts), alpha=0.3, beta=0.7),
        ST.evaluate_ehrenfest_force(P, shells, pts, alpha=0.3, beta=0.7) @ G.T)
    if not quick or case["id"] % 4 == 0:
        cmp("evaluate_ehrenfest_hessian (tensor law)", ST.evaluate_ehrenfest_hessian(P2, shells2, move(pts), alpha=0.3, beta=0.7),
            np.einsum("ki,lj,pij->pkl", G, G, ST.evaluate_ehrenfest_hessian(P, shells, pts, alpha=0.3, beta=0.7)))
    esp = m("gbasis.evals.electrostatic_potential").electrostatic_potential
    cmp("electrostatic_potential", esp(shells2, P2, move(pts), move(chg_pos), np.abs(chg), threshold_dist=0.05),
        esp(shells, P, pts, chg_pos, np.abs(chg), threshold_dist=0.05))
    if case["kind"] == "axis":
        # an integer-typed lattice of points (np.mgrid): its image under the motion is a float array
        ipts = np.array([[0, 0, 0], [1, 0, -1], [2, -1, 1], [-1, 1, 0]])
        cmp("evaluate_density_gradient on an integer-typed lattice (vector law)", D.evaluate_density_gradient(P2, shells2, move(ipts)),
            D.evaluate_density_gradient(P, shells, ipts) @ G.T)
        cmp("evaluate_basis on an integer-typed lattice", ev(shells2, move(ipts)), R @ ev(shells, ipts))
    # the 'direct' back-end at points ON a shell centre and on coordinate planes through it (first and second derivatives of
    # x^n exp(-a x^2) at x = 0 are special-cased there): a general rotation moves such points off the planes
    c_first = np.array([cg.val(x) for x in basis[0]["center"]])
    c_last = np.array([cg.val(x) for x in basis[-1]["center"]])
    ppts = np.array([c_first, c_last, c_first + np.array([0.0, 0.7, -0.4]), c_last + np.array([0.6, 0.0, 0.0]), c_first + np.array([0.3, 0.2, 0.0])])
    for dt in ("direct", "general"):
        cmp("evaluate_density_gradient(%s) on planes through the centres (vector law)" % dt,
            D.evaluate_density_gradient(P2, shells2, move(ppts), deriv_type=dt), D.evaluate_density_gradient(P, shells, ppts, deriv_type=dt) @ G.T)
        cmp("evaluate_density_laplacian(%s) on planes through the centres" % dt,
            D.evaluate_density_laplacian(P2, shells2, move(ppts), deriv_type=dt), D.evaluate_density_laplacian(P, shells, ppts, deriv_type=dt))
    # points 1e-3 bohr from a nucleus (innermost shells of an atomic grid), no masking
    near = chg_pos[:2] + np.array([[6e-4, -5e-4, 6e-4], [-4e-4, 7e-4, 5e-4]])
    cmp("electrostatic_potential 1e-3 bohr from a nucleus", esp(shells2, P2, move(near), move(chg_pos), np.abs(chg)),
        esp(shells, P, near, chg_pos, np.abs(chg)))
    if case["eri"]:
        er = m("gbasis.integrals.electron_repulsion").electron_repulsion_integral
        e1 = er(shells, notation="chemist")
        for ax in range(4):
            e1 = np.moveaxis(np.tensordot(R, e1, (1, ax)), 0, ax)
        cmp("electron_repulsion_integral", er(shells2, notation="chemist"), e1)
    res["sig"] = (case["kind"], tuple(case.get("perm", ())), tuple(case.get("sgn", ())), case["translate"], tuple((s["l"], s["type"]) for s in basis))
    return res


def run(pid, tier, seed, only_case=None):
    ctx = common.Ctx(pid, tier, seed)
    ctx.write_evidence = ctx.write_evidence and only_case is None
    quick = tier == "quick"
    if only_case is not None:
        cases = [only_case]
    else:
        maps = run_frames(ctx)
        cases = []
        for n, ((perm, sgn), mp) in enumerate(sorted(maps.items())):
            cases.append({"id": n + 1, "kind": "axis", "perm": list(perm), "sgn": list(sgn), "maps": mp, "translate": n % 2 == 1,
                          "eri": n % 6 == 0, "seed": seed, "quick": quick})
        if not quick:
            for n in range(48):
                cases.append({"id": 100 + n, "kind": "proper" if n % 2 else "improper", "translate": n % 3 == 0, "eri": n % 8 == 0,
                              "seed": seed, "quick": quick})
            for n, ((perm, sgn), mp) in enumerate(sorted(maps.items())):
                cases.append({"id": 200 + n, "kind": "axis", "perm": list(perm), "sgn": list(sgn), "maps": mp, "translate": n % 2 == 0,
                              "eri": n % 3 == 0, "seed": seed + 1, "quick": quick})
        else:
            for n in range(6):
                cases.append({"id": 100 + n, "kind": "proper" if n % 2 else "improper", "translate": n % 3 == 0, "eri": False,
                              "seed": seed, "quick": quick})
    out = common.pmap(replay_case, sorted(cases, key=lambda c: not c["eri"]))
    for c, r in zip(sorted(cases, key=lambda c: not c["eri"]), out):
        cc = {k: v for k, v in c.items() if k != "maps"}
        if common.impl_failure(ctx, r, cc, "c12", "rigid motion"):
            continue
        if r.get("machinery"):
            raise tlc.MachineryError(r["machinery"])
        ctx.replayed += 1
        ctx.evaluations += r["n"] - 1
        ctx.case_done(("c12",) + tuple(r["sig"]))
        ctx.note_dev("relative deviation from the covariance law", r["dev"])
        for v in r["violations"]:
            ctx.violation({"function": v.split(" ")[0]}, "case %d: %s" % (c["id"], v), {"module": "c12", "case": cc})
    ctx.extra["exhaustive"] = True
    ctx.extra["exhaustive_note"] = "all 48 signed axis permutations (finite group, enumerated by TLC); general rotations sampled"
    ctx.rule = ("one seeded system per group element (2-3 shells, l 0..4, generalized, both types, 4 points, 3 charges, a PSD density "
                "matrix, a moment origin), half of them with a translation; 16-19 public functions per system; distinct by motion and "
                "shells")
    ctx.samples = [{k: v for k, v in cases[1].items() if k != "maps"}]
    ctx.assumptions = ["code-versus-code comparison: the oracle is the transformation law, computed from the exact Cartesian->spherical "
                       "matrices of Spherical.tla and the component maps of Frames.tla"]
    return ctx.finish()
