"""Exact (rational) evaluation of the L1 definitions of /verif/spec/Gauss.tla, Rys.tla, Phi.tla.

This is the Python image of the TLA+ definitions, over Q (fractions.Fraction) instead of F_P.
It is *not* trusted on its own: in every run the tables it produces are reduced modulo the
run's primes and compared, entry by entry, with what TLC computed from the TLA+ text
(`fingerprint` checks in the property drivers); a disagreement is a machinery failure.

Naming follows the specification: Moment1D, Diff1D, Rys1D, Rys2D, Deriv1D ...
"""
from fractions import Fraction as Fr
from functools import lru_cache
import math


def dy(d):
    """<<mantissa, exponent>> -> Fraction."""
    m, e = d
    return Fr(m) * (Fr(2) ** e)


def dyf(d):
    """<<mantissa, exponent>> -> float, exactly (mantissas are < 2**53)."""
    return math.ldexp(d[0], d[1])


def modp(x, p):
    """Residue of a Fraction in F_p (raises ZeroDivisionError if p divides the denominator)."""
    x = Fr(x)
    den = x.denominator % p
    if den == 0:
        raise ZeroDivisionError("prime %d divides a denominator" % p)
    return (x.numerator % p) * pow(den, -1, p) % p


@lru_cache(maxsize=None)
def dfm1(n):
    """(n-1)!! with (-1)!! = 0!! = 1."""
    r = 1
    k = n - 1
    while k > 1:
        r *= k
        k -= 2
    return r


# ---------------------------------------------------------------- polynomials (lists, index = power)
def pmul(p, q):
    r = [Fr(0)] * (len(p) + len(q) - 1)
    for i, a in enumerate(p):
        if a == 0:
            continue
        for j, b in enumerate(q):
            r[i + j] += a * b
    return r


def padd(p, q):
    n = max(len(p), len(q))
    return [(p[i] if i < len(p) else 0) + (q[i] if i < len(q) else 0) for i in range(n)]


def pscale(c, p):
    return [c * a for a in p]


def ppowlin(c, n):
    """(t + c)**n"""
    return [math.comb(n, k) * c ** (n - k) for k in range(n + 1)]


def ppow(p, n):
    r = [Fr(1)]
    for _ in range(n):
        r = pmul(r, p)
    return r


# ---------------------------------------------------------------- Gauss.tla
class Axis:
    """One axis of one primitive pair: Gauss!Derive."""

    __slots__ = ("a", "b", "A", "B", "C", "p", "i2p", "cen", "pa", "pb", "pc")

    def __init__(self, a, b, A, B, C=0):
        self.a, self.b, self.A, self.B, self.C = Fr(a), Fr(b), Fr(A), Fr(B), Fr(C)
        self.p = self.a + self.b
        self.i2p = 1 / (2 * self.p)
        self.cen = (self.a * self.A + self.b * self.B) / self.p
        self.pa = self.cen - self.A
        self.pb = self.cen - self.B
        self.pc = self.cen - self.C


def gmoment(n, i2p):
    return Fr(0) if n % 2 else dfm1(n) * i2p ** (n // 2)


def gexpect(poly, i2p):
    return sum((c * gmoment(n, i2p) for n, c in enumerate(poly) if c != 0), Fr(0))


def moment1d(q, i, j, k):
    return gexpect(pmul(pmul(ppowlin(q.pa, i), ppowlin(q.pb, j)), ppowlin(q.pc, k)), q.i2p)


def moment_table(q, la, lb, km):
    """tab[k][j][i] = Moment1D(q, i, j, k), computed from the same closed form, sharing the powers."""
    pa = [ppowlin(q.pa, i) for i in range(la + 1)]
    pb = [ppowlin(q.pb, j) for j in range(lb + 1)]
    pc = [ppowlin(q.pc, k) for k in range(km + 1)]
    gm = [gmoment(n, q.i2p) for n in range(la + lb + km + 1)]
    tab = []
    for k in range(km + 1):
        rows = []
        for j in range(lb + 1):
            pjk = pmul(pb[j], pc[k])
            row = []
            for i in range(la + 1):
                poly = pmul(pa[i], pjk)
                row.append(sum((c * gm[n] for n, c in enumerate(poly) if c != 0), Fr(0)))
            rows.append(row)
        tab.append(rows)
    return tab


def diffvec(v, b):
    n = len(v)
    out = []
    for k in range(n + 1):
        x = (k + 1) * v[k + 1] if k + 1 < n else Fr(0)
        y = 2 * b * v[k - 1] if k >= 1 else Fr(0)
        out.append(x - y)
    return out


def diff_table(q, la, lb, dm):
    """tab[m][j][i] = Diff1D(q, i, j, m): derivative of order m of the RIGHT function."""
    ov = moment_table(q, la, lb + dm, 0)[0]  # ov[j][i]
    tab = []
    for m in range(dm + 1):
        rows = []
        for j in range(lb + 1):
            v = [Fr(0)] * j + [Fr(1)]
            for _ in range(m):
                v = diffvec(v, q.b)
            rows.append([sum((c * ov[n][i] for n, c in enumerate(v) if c != 0), Fr(0))
                         for i in range(la + 1)])
        tab.append(rows)
    return tab


# ---------------------------------------------------------------- Phi.tla: components
def cart_components(l):
    """Default Cartesian component order of gbasis (documented): x descending, then y descending."""
    return [(x, y, l - x - y) for x in range(l, -1, -1) for y in range(l - x, -1, -1)]


def sph_labels(l):
    """Documented default order of the pure functions."""
    if l == 1:
        return ["c1", "s1", "c0"]
    return ["s%d" % m for m in range(l, 0, -1)] + ["c%d" % m for m in range(l + 1)]


# ---------------------------------------------------------------- Spherical.tla (definition)
def _poly3_mul(p, q):
    r = {}
    for (a, c1) in p.items():
        for (b, c2) in q.items():
            k = (a[0] + b[0], a[1] + b[1], a[2] + b[2])
            r[k] = r.get(k, 0) + c1 * c2
    return {k: v for k, v in r.items() if v != 0}


@lru_cache(maxsize=None)
def solid_harmonic_poly(l, m):
    """Real regular solid harmonic as a polynomial {(ax, ay, az): rational}, un-normalised, from the
    Legendre form (NOT from gbasis' expansion):
        C_lm + i S_lm = (x + i y)^|m| * Q_lm(z, r^2),
        Q_lm = sum_k (-1)^k (2l-2k)! / (2^l k! (l-k)! (l-2k-|m|)!) z^(l-2k-|m|) r^(2k)
    (the |m|-th derivative of the Legendre polynomial, homogenised).  m >= 0: cosine partner,
    m < 0: sine partner.  The coefficient of z^(l-|m|) * Re/Im (x+iy)^|m| near the pole is positive.
    """
    am = abs(m)
    # (x + i y)^am  -> real and imaginary parts
    re, im = {}, {}
    for k in range(am + 1):
        c = math.comb(am, k)
        # i^k
        key = (am - k, k, 0)
        if k % 4 == 0:
            re[key] = re.get(key, 0) + c
        elif k % 4 == 1:
            im[key] = im.get(key, 0) + c
        elif k % 4 == 2:
            re[key] = re.get(key, 0) - c
        else:
            im[key] = im.get(key, 0) - c
    ang = re if m >= 0 else im
    r2 = {(2, 0, 0): 1, (0, 2, 0): 1, (0, 0, 2): 1}
    q = {}
    r2k = {(0, 0, 0): 1}
    for k in range((l - am) // 2 + 1):
        coef = Fr((-1) ** k * math.factorial(2 * l - 2 * k),
                  2 ** l * math.factorial(k) * math.factorial(l - k) * math.factorial(l - 2 * k - am))
        term = _poly3_mul({(0, 0, l - 2 * k - am): coef}, r2k)
        for key, v in term.items():
            q[key] = q.get(key, 0) + v
        r2k = _poly3_mul(r2k, r2)
    return _poly3_mul(ang, q)


def _metric(a, b):
    """Integral of mono_a * mono_b * radial^2 up to a component-independent factor:
    prod_axis (a+b-1)!! if every a+b is even, else 0."""
    r = 1
    for x, y in zip(a, b):
        if (x + y) % 2:
            return 0
        r *= dfm1(x + y)
    return r


@lru_cache(maxsize=None)
def solid_harmonic_row(l, m):
    """Coefficients of the unit-normalised pure function (l, m) on UNIT-NORMALISED Cartesian functions:
    {(ax,ay,az): (sign, square)} with square a Fraction.  sum_ab t_a t_b <a|b> = 1."""
    h = solid_harmonic_poly(l, m)
    norm2 = sum(h[a] * h[b] * _metric(a, b) for a in h for b in h)
    out = {}
    for a, c in h.items():
        sq = Fr(c * c * dfm1(2 * a[0]) * dfm1(2 * a[1]) * dfm1(2 * a[2])) / norm2
        out[a] = (1 if c > 0 else -1, sq)
    return out


def parse_sph_label(lab):
    sign = 1
    if lab.startswith("-"):
        sign = -1
        lab = lab[1:]
    m = int(lab[1:])
    return sign, (m if lab[0] == "c" else -m)


def transform_exact(l, cart_order=None, sph_order=None):
    """Rows = pure functions (in sph_order), columns = Cartesian components (in cart_order); entries
    (sign, square).  This is the 'left' form of the documentation."""
    cart_order = [tuple(c) for c in (cart_order if cart_order is not None else cart_components(l))]
    sph_order = list(sph_order if sph_order is not None else sph_labels(l))
    rows = []
    for lab in sph_order:
        s, m = parse_sph_label(lab)
        row = solid_harmonic_row(l, m)
        rows.append([(s * row[c][0], row[c][1]) if c in row else (0, Fr(0)) for c in cart_order])
    return rows


def transform_float(l, cart_order=None, sph_order=None):
    import numpy as np
    ex = transform_exact(l, cart_order, sph_order)
    return np.array([[s * math.sqrt(float(sq)) for (s, sq) in row] for row in ex])


# ---------------------------------------------------------------- Rys.tla
def ptrim(p):
    p = list(p)
    while len(p) > 1 and p[-1] == 0:
        p.pop()
    return p


def ppowers(c, n):
    out = [[Fr(1)]]
    for _ in range(n):
        out.append(pmul(out[-1], c))
    return out


def bpowlin(c, n):
    """(tau + c(s))**n as a list over tau-powers of s-polynomials."""
    pw = ppowers(c, n)
    return [pscale(math.comb(n, k), pw[n - k]) for k in range(n + 1)]


def bmul(f, g):
    out = [[Fr(0)] for _ in range(len(f) + len(g) - 1)]
    for i, a in enumerate(f):
        for j, b in enumerate(g):
            out[i + j] = padd(out[i + j], pmul(a, b))
    return out


def rys1d_table(q, la, lb):
    """tab[j][i] = Rys1D(q, i, j): polynomial in s (list of Fractions)."""
    QA = [q.pa, -q.pc]
    QB = [q.pb, -q.pc]
    fa = [bpowlin(QA, i) for i in range(la + 1)]
    fb = [bpowlin(QB, j) for j in range(lb + 1)]
    oms = ppowers([Fr(1), Fr(-1)], (la + lb) // 2)
    w = []
    for n in range(la + lb + 1):
        w.append([Fr(0)] if n % 2 else pscale(dfm1(n) * q.i2p ** (n // 2), oms[n // 2]))
    tab = []
    for j in range(lb + 1):
        row = []
        for i in range(la + 1):
            f = bmul(fa[i], fb[j])
            acc = [Fr(0)]
            for n, c in enumerate(f):
                acc = padd(acc, pmul(c, w[n]))
            row.append(ptrim(acc))
        tab.append(row)
    return tab


class Axis2:
    """One axis of a primitive quartet: Rys!Derive2."""

    def __init__(self, a, b, c, d, A, B, C, D):
        a, b, c, d, A, B, C, D = map(Fr, (a, b, c, d, A, B, C, D))
        self.p, self.q = a + b, c + d
        self.ipq = 1 / (self.p + self.q)
        Pc = (a * A + b * B) / self.p
        Qc = (c * C + d * D) / self.q
        Wc = (self.p * Pc + self.q * Qc) * self.ipq
        self.pa, self.pb, self.qc, self.qd = Pc - A, Pc - B, Qc - C, Qc - D
        self.wp, self.wq, self.pq = Wc - Pc, Wc - Qc, Pc - Qc
        h = Fr(1, 2)
        self.v1 = [h / self.p, (self.ipq - 1 / self.p) * h]
        self.v2 = [h / self.q, (self.ipq - 1 / self.q) * h]
        self.cv = [Fr(0), self.ipq * h]


def iss_table(d, nmax, mmax):
    pv1 = ppowers(d.v1, nmax // 2)
    pv2 = ppowers(d.v2, mmax // 2)
    pcv = ppowers(d.cv, min(nmax, mmax))
    E = []
    for n in range(nmax + 1):
        row = []
        for m in range(mmax + 1):
            acc = [Fr(0)]
            for c in range(min(n, m) + 1):
                if (n - c) % 2 == 0 and (m - c) % 2 == 0:
                    h1, h2 = (n - c) // 2, (m - c) // 2
                    coef = Fr(math.factorial(n) * math.factorial(m),
                              math.factorial(c) * math.factorial(h1) * math.factorial(h2) * 2 ** (h1 + h2))
                    acc = padd(acc, pscale(coef, pmul(pmul(pv1[h1], pv2[h2]), pcv[c])))
            row.append(acc)
        E.append(row)
    return E


def rys2d_table(d, la, lb, lc, ld):
    """tab[i][j][k][l] = polynomial in s."""
    XA, XB, XC, XD = [d.pa, d.wp], [d.pb, d.wp], [d.qc, d.wq], [d.qd, d.wq]
    fa = [bpowlin(XA, i) for i in range(la + 1)]
    fb = [bpowlin(XB, j) for j in range(lb + 1)]
    fc = [bpowlin(XC, k) for k in range(lc + 1)]
    fd = [bpowlin(XD, l) for l in range(ld + 1)]
    fab = [[bmul(fa[i], fb[j]) for j in range(lb + 1)] for i in range(la + 1)]
    fcd = [[bmul(fc[k], fd[l]) for l in range(ld + 1)] for k in range(lc + 1)]
    E = iss_table(d, la + lb, lc + ld)
    tab = []
    for i in range(la + 1):
        ti = []
        for j in range(lb + 1):
            f = fab[i][j]
            # h[m] = sum_n f[n] * E[n][m]
            h = []
            for m in range(lc + ld + 1):
                acc = [Fr(0)]
                for n, fn in enumerate(f):
                    if any(fn):
                        acc = padd(acc, pmul(fn, E[n][m]))
                h.append(acc)
            tj = []
            for k in range(lc + 1):
                tk = []
                for l in range(ld + 1):
                    g = fcd[k][l]
                    acc = [Fr(0)]
                    for m, gm in enumerate(g):
                        if any(gm):
                            acc = padd(acc, pmul(gm, h[m]))
                    tk.append(ptrim(acc))
                tj.append(tk)
            ti.append(tj)
        tab.append(ti)
    return tab
