"""Sensitivity and non-alarm self-test of the checks (DESIGN.md appendix E): each entry is a one-token style change to
a scratch worktree of /repo (under /tmp, removed afterwards).  `detect` entries must be reported by the named quick
check, `silent` entries keep every property true and must pass.
    selftest.py [substring filter]            results -> /verif/build/selftest.json and stdout"""
import json
import os
import shutil
import subprocess
import sys
import uuid

CATALOGUE = [
    # (check ids, file, old, new, expectation)
    ("C01,C07", "gbasis/integrals/_moment_int.py", "            i * integrals[0, 0, i - 1, :, :, :] / (2 * exps_sum)",
     "            (i + 1) * integrals[0, 0, i - 1, :, :, :] / (2 * exps_sum)", "detect"),
    ("C01", "gbasis/contractions.py", "(2 * exponents / np.pi) ** (3 / 4)", "(2 * exponents / np.pi) ** (1 / 2)", "detect"),
    ("C02", "gbasis/integrals/kinetic_energy.py", "return -0.5 * np.sum(output, axis=0)", "return 0.5 * np.sum(output, axis=0)", "detect"),
    ("C02,C08", "gbasis/integrals/_diff_operator_int.py", "            angmom_a_max + order_diff_max + 1,\n            3,",
     "            angmom_a_max + order_diff_max,\n            3,", "detect"),
    ("C03,C12", "gbasis/integrals/_one_elec_int.py",
     "            / (2 * exps_sum).squeeze(axis=1)[:, None, None, :, :, :]  # a bit redundant, but okay\n            * (integrals[:-1, :, :, a - 1",
     "            / (2 * exps_sum).squeeze(axis=1)[:, None, None, :, :, :] * (a + 1) / a\n            * (integrals[:-1, :, :, a - 1", "detect"),
    ("C03", "gbasis/integrals/point_charge.py", "            return np.transpose(output, (2, 3, 0, 1, 4))", "            return np.transpose(output, (2, 1, 0, 3, 4))", "detect"),
    ("C03,C14", "gbasis/integrals/point_charge.py", "            -points_charge\n", "            points_charge\n", "detect"),
    ("C04", "gbasis/integrals/electron_repulsion.py", "        array = np.transpose(array, (0, 2, 1, 3))", "        array = np.transpose(array, (0, 3, 2, 1))", "detect"),
    ("C04,C09", "gbasis/base_four_symm.py", "                all_blocks[l, k, j, i] = np.swapaxes(np.swapaxes(block, 1, 2), 0, 3)\n\n        # concatenate\n        return np.concatenate(\n            [\n                np.concatenate(\n                    [\n                        np.concatenate(\n                            [np.concatenate(blocks_three, axis=3) for blocks_three in blocks_two],\n                            axis=2,\n                        )\n                        for blocks_two in blocks_one\n                    ],\n                    axis=1,\n                )\n                for blocks_one in all_blocks\n            ],\n            axis=0,\n        )\n\n    def construct_array_spherical",
     "                all_blocks[l, k, j, i] = np.swapaxes(np.swapaxes(block, 1, 3), 0, 2)\n\n        # concatenate\n        return np.concatenate(\n            [\n                np.concatenate(\n                    [\n                        np.concatenate(\n                            [np.concatenate(blocks_three, axis=3) for blocks_three in blocks_two],\n                            axis=2,\n                        )\n                        for blocks_two in blocks_one\n                    ],\n                    axis=1,\n                )\n                for blocks_one in all_blocks\n            ],\n            axis=0,\n        )\n\n    def construct_array_spherical", "detect"),
    ("C05,C06", "gbasis/evals/_deriv.py", "                * (4 * second_ang_comp[:, :, None] + 2)", "                * (4 * second_ang_comp[:, :, None] + 1)", "detect"),
    ("C05", "gbasis/evals/_deriv.py", "            * (-(alphas**0.5)) ** indices_herm", "            * ((alphas**0.5)) ** indices_herm", "detect"),
    ("C06", "gbasis/evals/density.py", "            factor = 2\n", "            factor = 1\n", "detect"),
    ("C06", "gbasis/evals/density.py", "                orders_one_two[j][j],", "                orders_one_two[i][i],", "detect"),
    ("C07", "gbasis/integrals/moment.py", "        return np.transpose(output, (1, 2, 3, 4, 0))", "        return np.transpose(output, (3, 2, 1, 4, 0))", "detect"),
    ("C08", "gbasis/integrals/momentum.py", "        return -1j * np.transpose(output, (1, 2, 3, 4, 0))", "        return 1j * np.transpose(output, (1, 2, 3, 4, 0))", "detect"),
    ("C08,C12", "gbasis/integrals/angular_momentum.py",
     "                    - moment_integrals[1, angmoms_b[:, None, 0], angmoms_a[None, :, 0], 0, :, :]\n                    * diff_integrals[1, angmoms_b[:, None, 2], angmoms_a[None, :, 2], 2, :, :]",
     "                    - moment_integrals[1, angmoms_b[:, None, 0], angmoms_a[None, :, 0], 0, :, :]\n                    * diff_integrals[1, angmoms_b[:, None, 1], angmoms_a[None, :, 1], 1, :, :]", "detect"),
    ("C09", "gbasis/base_one.py", "        return np.tensordot(transform, array, (1, 0))", "        return np.tensordot(transform, array, (0, 0))", "detect"),
    ("C09,C10", "gbasis/spherical.py", "    return np.piecewise(float(mag), [mag < 0, mag >= 0], [0.5, 0])", "    return np.piecewise(float(mag), [mag < 0, mag >= 0], [0.5, 0.5])", "detect"),
    ("C10", "gbasis/spherical.py", "            * comb(angmom - i, np.abs(mag) + i)\n            * comb(i, j)\n            * comb(np.abs(mag), 2 * k)\n        )\n    return (",
     "            * comb(angmom, np.abs(mag) + i)\n            * comb(i, j)\n            * comb(np.abs(mag), 2 * k)\n        )\n    return (", "detect"),
    ("C11,C08", "gbasis/base_two_symm.py", "            np.conj(np.swapaxes(block, 0, 1))\n            for block in all_blocks.T[np.tril_indices(num_blocks_side)]\n        ]\n        # concatenate\n        return np.concatenate(\n            [np.concatenate(row_blocks, axis=1) for row_blocks in all_blocks], axis=0\n        )\n\n    def construct_array_spherical",
     "            np.swapaxes(block, 0, 1)\n            for block in all_blocks.T[np.tril_indices(num_blocks_side)]\n        ]\n        # concatenate\n        return np.concatenate(\n            [np.concatenate(row_blocks, axis=1) for row_blocks in all_blocks], axis=0\n        )\n\n    def construct_array_spherical", "detect"),
    ("C13", "gbasis/contractions.py", "        self.norm_cont **= -0.5", "        self.norm_cont **= -0.5\n        self.norm_cont = np.abs(self.norm_cont) * np.sign(self.coeffs[0])[:, None]", "detect"),
    ("C14,C19", "gbasis/evals/electrostatic_potential.py", "    np.seterr(**old_settings)", "    pass", "detect"),
    ("C14", "gbasis/evals/electrostatic_potential.py", "    external_potential[distances < threshold_dist] = 0", "    external_potential[distances <= threshold_dist] = 0", "detect"),
    ("C15", "gbasis/evals/stress_tensor.py", "                output[i] -= (1 - 2 * alpha) * evaluate_deriv_reduced_density_matrix(", "                output[i] -= (1 - alpha) * evaluate_deriv_reduced_density_matrix(", "detect"),
    ("C16", "gbasis/base_one.py", "            matrix_contraction = np.tensordot(transform, matrix_contraction, (1, 1))\n            matrix_contraction = np.concatenate(np.swapaxes(matrix_contraction, 0, 1), axis=0)",
     "            matrix_contraction = np.tensordot(transform[::-1], matrix_contraction, (1, 1))\n            matrix_contraction = np.concatenate(np.swapaxes(matrix_contraction, 0, 1), axis=0)", "detect"),
    ("C17", "gbasis/integrals/_two_elec_int.py", "    integrals = np.transpose(integrals_horiz_b2, (1, 0, 3, 2, 4, 6, 5, 7))", "    integrals = np.transpose(integrals_horiz_b2, (1, 0, 3, 2, 4, 6, 5, 7)) * (1.0 - 2.0 * ((angmom_a != angmom_b) and (angmom_c != angmom_d)))", "detect"),
    ("C18", "gbasis/parsers.py", 'dict_angmom = {"s": 0, "p": 1, "d": 2, "f": 3, "g": 4, "h": 5, "i": 6, "k": 7}\n    # remove first part (everything before the first shell)',
     'dict_angmom = {"s": 0, "p": 1, "d": 2, "f": 3, "g": 4, "h": 5, "i": 6, "k": 8}\n    # remove first part (everything before the first shell)', "detect"),
    ("C19,C18", "gbasis/parsers.py", "    coord_types = list(coord_types)\n", "", "detect"),
    ("C20", "gbasis/integrals/overlap.py", "    alpha_a = min(contractions_one.exps)", "    alpha_a = max(contractions_one.exps)", "detect"),
    ("C20", "gbasis/integrals/overlap.py", "    return np.linalg.norm(r_12) > cutoff", "    return np.linalg.norm(r_12) >= cutoff * 0.999", "detect"),
    # ---- changes that keep every property true: must stay silent
    ("C01,C09", "gbasis/base_two_symm.py", "                block = np.swapaxes(np.swapaxes(block, 0, 1), 1, 2)\n                block = np.concatenate(block, axis=0)\n                block = np.swapaxes(block, 0, 1)\n                # array now has shape (M_1 L_1, M_2 L_2, ...)\n                triu_blocks.append(block)",
     "                block = np.swapaxes(np.swapaxes(block, 0, 2), 0, 1)\n                block = np.concatenate(block, axis=0)\n                block = np.swapaxes(block, 0, 1)\n                # array now has shape (M_1 L_1, M_2 L_2, ...)\n                triu_blocks.append(block)", "silent"),
    ("C03,C04,C14", "gbasis/integrals/point_charge.py", "        return hyp1f1(orders + 1 / 2, orders + 3 / 2, -weighted_dist) / (2 * orders + 1)",
     "        from scipy.special import gammainc, gamma\n        t = np.asarray(weighted_dist, dtype=float)\n        o = np.asarray(orders, dtype=float) + 0.5\n        with np.errstate(all='ignore'):\n            big = gammainc(o, t) * gamma(o) / (2 * t ** o)\n        return np.where(t < 25.0, hyp1f1(orders + 1 / 2, orders + 3 / 2, -weighted_dist) / (2 * orders + 1), big)", "silent"),
    ("C01,C02,C07", "gbasis/contractions.py", "            * ((4 * exponents) ** (self.angmom / 2))", "            * ((2 * exponents) ** (self.angmom / 2))", "silent"),
    ("C18", "gbasis/parsers.py", "                if output[atom] and output[atom][-1][0] == angmom and hstack:", "                if False and output[atom] and output[atom][-1][0] == angmom and hstack:", "silent"),
]


def main():
    flt = sys.argv[1] if len(sys.argv) > 1 else ""
    results = []
    for n, (pids, path, old, new, expect) in enumerate(CATALOGUE):
        tag = "%02d %s %s" % (n, expect, path)
        if flt and flt not in tag and flt not in pids:
            continue
        wt = "/tmp/gbv_self_" + uuid.uuid4().hex[:8]
        subprocess.run(["git", "-C", "/repo", "worktree", "add", "-q", "--detach", wt, "HEAD"], check=True)
        try:
            p = os.path.join(wt, path)
            s = open(p).read()
            if s.count(old) != 1:
                print("%-70s PATTERN NOT UNIQUE (%d)" % (tag, s.count(old)))
                results.append({"entry": n, "file": path, "status": "pattern"})
                continue
            open(p, "w").write(s.replace(old, new))
            env = dict(os.environ, GBV_REPO=wt, GBV_NO_EVIDENCE="1")
            for pid in pids.split(","):
                r = subprocess.run(["/verif/check", pid, "--tier", "quick"], env=env, stdout=subprocess.PIPE, stderr=subprocess.STDOUT, text=True)
                ok = (r.returncode == 1) if expect == "detect" else (r.returncode == 0)
                msg = next((l.strip() for l in r.stdout.splitlines() if l.startswith("  ")), "")[:160]
                print("%-70s %s exit %d  %s  %s" % (tag, pid, r.returncode, "OK" if ok else "*** UNEXPECTED ***", msg if expect == "detect" or not ok else ""))
                results.append({"entry": n, "file": path, "check": pid, "expect": expect, "exit": r.returncode, "as_expected": ok, "message": msg})
        finally:
            subprocess.run(["git", "-C", "/repo", "worktree", "remove", "--force", wt])
            shutil.rmtree(wt, ignore_errors=True)
    subprocess.run(["git", "-C", "/repo", "worktree", "prune"])
    os.makedirs("/verif/build", exist_ok=True)
    json.dump(results, open("/verif/build/selftest.json", "w"), indent=1)
    bad = [r for r in results if not r.get("as_expected", False)]
    print("%d runs, %d not as expected" % (len(results), len(bad)))
    return 1 if bad else 0


if __name__ == "__main__":
    sys.exit(main())
