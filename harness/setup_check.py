"""setup_cmd: parse every hand-written TLA+ module with SANY (offline; nothing is fetched)."""
import os
import sys

sys.path.insert(0, os.path.dirname(os.path.abspath(__file__)))
from gbv import tlc  # noqa: E402

bad = 0
for f in sorted(os.listdir(tlc.SPEC)):
    if f.endswith(".tla"):
        ok, out = tlc.sany(os.path.join(tlc.SPEC, f))
        if not ok:
            bad += 1
            print("SANY failed on", f)
            print(out[-2000:])
print("setup: %d modules parsed, %d failures" % (len([f for f in os.listdir(tlc.SPEC) if f.endswith('.tla')]), bad))
sys.exit(1 if bad else 0)
